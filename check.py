#!/usr/bin/env python3
"""Driver for the parmcb property checks (see DESIGN.md).

usage: python3-vt check.py <Cxx> --tier quick|thorough
       python3-vt check.py <Cxx> --replay <file>
       python3-vt check.py --setup
Exit codes: 0 held / only known findings; 1 VIOLATION printed; 2 machinery error.
"""
import argparse, glob, hashlib, itertools, json, os, re, shutil, signal, subprocess, sys, time
from concurrent.futures import ThreadPoolExecutor

VERIF = os.path.dirname(os.path.abspath(__file__))
REPO = os.environ.get("VERIF_REPO", "/repo")
ENGINE = os.path.join(VERIF, "engine")
BUILD = os.path.join(VERIF, "build")
EVID = os.path.join(VERIF, "evidence")
REPLAYS = os.path.join(VERIF, "replays")
NEWDIR = os.path.join(REPLAYS, "_new")
NCPU = os.cpu_count() or 4
GUARD = "PARMCB_VERIF"

sys.path.insert(0, ENGINE)


def log(*a):
    print(*a, file=sys.stderr, flush=True)


def seed_value():
    try:
        s = int(os.environ.get("VERIF_SEED", "1"))
    except ValueError:
        s = 1
    if s == 0:
        s = 1
    return abs(s)


# ----------------------------------------------------------------------------- build
def tree_hash(extra=()):
    h = hashlib.sha256()
    roots = [os.path.join(REPO, "include"), os.path.join(REPO, "src")]
    files = []
    for r in roots:
        for dp, dn, fn in os.walk(r):
            for f in fn:
                files.append(os.path.join(dp, f))
    for f in sorted(files):
        h.update(f.encode())
        with open(f, "rb") as fh:
            h.update(fh.read())
    for dp, dn, fn in os.walk(ENGINE):
        if "__pycache__" in dp:
            continue
        for f in sorted(fn):
            p = os.path.join(dp, f)
            h.update(p.encode())
            with open(p, "rb") as fh:
                h.update(fh.read())
    for e in extra:
        h.update(str(e).encode())
    return h.hexdigest()[:20]


def gen_config(incdir, tbb=True, mpi=True, logging=False):
    d = os.path.join(incdir, "parmcb")
    os.makedirs(d, exist_ok=True)
    src = open(os.path.join(REPO, "include/parmcb/config.hpp.in")).read()
    on = {"PARMCB_HAVE_BOOST": True, "PARMCB_HAVE_TBB": tbb, "PARMCB_HAVE_MPI": mpi,
          "PARMCB_LOGGING": logging, "PARMCB_INVARIANTS_CHECK": True}

    def rep(m):
        name = m.group(1)
        return ("#define %s" % name) if on.get(name, False) else ("/* #undef %s */" % name)
    out = re.sub(r"#cmakedefine\s+(\w+)", rep, src)
    with open(os.path.join(d, "config.hpp"), "w") as f:
        f.write(out)


MPI_INC = ["-isystem", "/usr/lib/x86_64-linux-gnu/openmpi/include", "-isystem",
           "/usr/lib/x86_64-linux-gnu/openmpi/include/openmpi"]
MPI_LIBS = ["-Wl,-rpath,/usr/lib/x86_64-linux-gnu/openmpi/lib", "-lboost_mpi", "-lboost_serialization",
            "-L/usr/lib/x86_64-linux-gnu/openmpi/lib", "-lmpi_cxx", "-lmpi"]

SAN = ["-fsanitize=address,undefined", "-fno-sanitize-recover=undefined"]

HARNESS = {
    # name: (source, compiler, flags, libs, config kwargs)
    "h_exact": dict(src="h_exact.cpp", cxx="clang++", flags=["-O1", "-g"] + SAN, libs=["-lrapidcheck", "-ltbb", "-lboost_timer"]),
    "h_approx": dict(src="h_approx.cpp", cxx="clang++", flags=["-O1", "-g"] + SAN, libs=["-lrapidcheck", "-ltbb", "-lboost_timer"]),
    "fz_mcb": dict(src="fz_mcb.cpp", cxx="clang++", flags=["-O1", "-g", "-fsanitize=fuzzer,address,undefined", "-fno-sanitize-recover=undefined"],
                   libs=["-lrapidcheck", "-ltbb", "-lboost_timer"]),
    "fz_dimacs": dict(src="fz_dimacs.cpp", cxx="clang++", flags=["-O1", "-g", "-fsanitize=fuzzer,address,undefined", "-fno-sanitize-recover=undefined"], libs=["-ltbb"]),
    "h_dimacs": dict(src="h_dimacs.cpp", cxx="clang++", flags=["-O1", "-g"] + SAN, libs=["-lrapidcheck", "-ltbb"]),
    "h_alg": dict(src="h_alg.cpp", cxx="clang++", flags=["-O1", "-g"] + SAN, libs=["-lrapidcheck"]),
    "h_sched": dict(src="h_sched.cpp", cxx="clang++", flags=["-O1", "-g"] + SAN, libs=["-lrapidcheck", "-lboost_timer"], pre_includes=["mocktbb"]),
    "h_sched_tsan": dict(src="h_sched.cpp", cxx="clang++", flags=["-O1", "-g", "-fsanitize=thread", "-DMOCKTBB_THREADS"],
                         libs=["-lrapidcheck", "-lboost_timer", "-lpthread"], pre_includes=["mocktbb"]),
    "h_mpi": dict(src="h_mpi.cpp", cxx="clang++", flags=["-O1", "-g", "-fsanitize=undefined", "-fno-sanitize-recover=undefined"],
                  inc=MPI_INC, libs=["-lrapidcheck", "-ltbb", "-lboost_timer"] + MPI_LIBS),
    "h_conc": dict(src="h_conc.cpp", extra_src=["h_conc_tu2.cpp"], cxx="clang++", flags=["-O1", "-g"] + SAN, libs=["-lrapidcheck", "-ltbb", "-lboost_timer"]),
    # uninstrumented builds for the valgrind-memcheck pass of C07 (uninitialised reads; there is no MSan-instrumented libstdc++ here)
    "h_exact_vg": dict(src="h_exact.cpp", cxx="clang++", flags=["-O1", "-g", "-gdwarf-4"], libs=["-lrapidcheck", "-ltbb", "-lboost_timer"]),
    "h_approx_vg": dict(src="h_approx.cpp", cxx="clang++", flags=["-O1", "-g", "-gdwarf-4"], libs=["-lrapidcheck", "-ltbb", "-lboost_timer"]),
    "h_comp_vg": dict(src="h_comp.cpp", cxx="clang++", flags=["-O1", "-g", "-gdwarf-4"], libs=["-lrapidcheck", "-ltbb", "-lboost_timer"]),
    "h_dimacs_vg": dict(src="h_dimacs.cpp", cxx="clang++", flags=["-O1", "-g", "-gdwarf-4"], libs=["-lrapidcheck", "-ltbb"]),
    "h_comp": dict(src="h_comp.cpp", cxx="clang++", flags=["-O1", "-g"] + SAN, libs=["-lrapidcheck", "-ltbb", "-lboost_timer"]),
}


class BuildError(Exception):
    pass


_BUILT = {}


def build_harness(name):
    # one binary per harness for the whole run of this process (the tree is hashed once per harness)
    if name not in _BUILT:
        _BUILT[name] = _build_harness(name)
    return _BUILT[name]


def _build_harness(name):
    spec = HARNESS[name]
    flags = ["-std=c++14", "-D" + GUARD] + spec["flags"]
    th = tree_hash([name, spec["cxx"]] + flags + spec["libs"])
    bdir = os.path.join(BUILD, "%s-%s" % (name, th))
    binp = os.path.join(bdir, name)
    if os.path.exists(binp):
        try:
            os.utime(bdir, None)
        except OSError:
            pass
        return binp
    # drop stale builds of the same harness (not recently used ones: another check.py process may be running them)
    now = time.time()
    for old in glob.glob(os.path.join(BUILD, name + "-*")):
        try:
            if now - os.path.getmtime(old) > 2 * 3600:
                shutil.rmtree(old, ignore_errors=True)
        except OSError:
            pass
    os.makedirs(bdir, exist_ok=True)
    inc = os.path.join(bdir, "inc")
    gen_config(inc, **spec.get("config", {}))
    pre = []
    for p in spec.get("pre_includes", []):
        pre += ["-I", os.path.join(ENGINE, p)]
    cmd = [spec["cxx"]] + flags + pre + ["-I", inc, "-I", os.path.join(REPO, "include"), "-I", ENGINE] + \
        spec.get("inc", []) + [os.path.join(ENGINE, spec["src"])] + [os.path.join(ENGINE, x) for x in spec.get("extra_src", [])] + \
        ["-o", binp + ".tmp"] + spec["libs"]
    t0 = time.time()
    r = subprocess.run(cmd, stdout=subprocess.PIPE, stderr=subprocess.STDOUT, text=True)
    if r.returncode != 0:
        raise BuildError("build of %s failed:\n%s\n%s" % (name, " ".join(cmd), r.stdout[-6000:]))
    os.rename(binp + ".tmp", binp)
    log("built %s in %.0fs" % (name, time.time() - t0))
    return binp


# ----------------------------------------------------------------------------- known findings
def load_findings():
    """known_findings.txt: 'fixed: property=<id> <commit> <what>' (suppresses nothing) and
    'open: property=<id> key=<failure-key-prefix> <what>' (that key is reported as KNOWN-FINDING, anything else is a VIOLATION)."""
    p = os.path.join(VERIF, "known_findings.txt")
    out = []
    if not os.path.exists(p):
        return out
    for line in open(p):
        line = line.strip()
        if not line or line.startswith("#"):
            continue
        m = re.match(r"open:\s+property=(\S+)\s+key=(\S+)\s+(.*)", line)
        if m:
            out.append(dict(property=m.group(1), key=m.group(2), status="open", what=m.group(3)))
            continue
        m = re.match(r"fixed:\s+property=(\S+)\s+(\S+)\s+(.*)", line)
        if m:
            out.append(dict(property=m.group(1), commit=m.group(2), status="fixed", what=m.group(3), key=None))
    return out


def open_findings(pid):
    return [f for f in load_findings() if f["property"] == pid and f.get("status") == "open"]


def key_matches(key, prefix):
    return key == prefix or key.startswith(prefix + "/")


# ----------------------------------------------------------------------------- property table
ASAN_ENV = {"ASAN_OPTIONS": "detect_leaks=1:detect_stack_use_after_return=1:abort_on_error=0:exitcode=99:allocator_may_return_null=1",
            "UBSAN_OPTIONS": "print_stacktrace=1:halt_on_error=1:exitcode=98",
            "LSAN_OPTIONS": "exitcode=97"}

PROPS = {}


def prop(pid, **kw):
    PROPS[pid] = kw


prop("C01", harness="h_exact",
     quick=dict(shards=16, cases=6000, env={"VERIF_MAXN": "14"},
                extra_phases=[dict(shards=16, cases=300, env={"VERIF_MAXN": "40", "VERIF_MAXM": "110"}, seed_offset=400)]),
     thorough=dict(shards=16, cases=40000, env={"VERIF_MAXN": "20"},
                   extra_phases=[dict(shards=16, cases=2500, env={"VERIF_MAXN": "80", "VERIF_MAXM": "220"}, seed_offset=400)]),
     rule="Generated simple graphs (12 shape families incl. empty/forest/multi-component, disjoint unions, pendant trees, "
          "vertex+edge-order permutations) x exact weight palettes x {double,int} x {signed,fvs_trees,iso_trees}; oracle: "
          "count==m-n+c (union-find), every cycle one simple cycle of the caller's graph (descriptor identity), GF(2) rank == count. "
          "Non-trivial = cycle-space dimension >= 2 and at least one weight tie among edges; distinct by hash of the full case text.",
     assumptions=["weights are exactly summable (dyadic/integer), graphs simple: the property's stated domain",
                  "output iterator is a back_inserter into std::list<std::list<edge>> as in every caller in the repository"])
prop("C02", harness="h_exact",
     quick=dict(shards=16, cases=6000, env={"VERIF_MAXN": "12"}, fuzz=dict(harness="fz_mcb", jobs=4, runs=8000, max_len=64),
                extra_phases=[dict(shards=16, cases=250, env={"VERIF_MAXN": "36", "VERIF_MAXM": "100"}, seed_offset=400),
                              dict(shards=16, cases=400, env={"VERIF_PROFILE": "gnp-wide", "VERIF_MAXN": "26", "VERIF_MAXM": "140"}, seed_offset=450)]),
     thorough=dict(shards=16, cases=40000, env={"VERIF_MAXN": "16"}, fuzz=dict(harness="fz_mcb", jobs=16, time=240, max_len=64),
                   extra_phases=[dict(shards=16, cases=2500, env={"VERIF_MAXN": "48", "VERIF_MAXM": "140"}, seed_offset=400),
                                 dict(shards=16, cases=6000, env={"VERIF_PROFILE": "gnp-wide", "VERIF_MAXN": "40", "VERIF_MAXM": "200"}, seed_offset=450)]),
     rule="Same generator as C01; oracle: returned value == exact sum of emitted cycle weights, == optimum from an independent "
          "reference (brute force over all simple cycles + greedy GF(2) independence for n<=8,m<=22; textbook de Pina with plain "
          "Dijkstra on the explicit signed graph otherwise), sorted cycle-weight vector == optimum's. Non-trivial = dimension>=2 "
          "and two distinct simple cycles of equal weight (brute-force sizes) or tied edge weights (larger sizes).",
     assumptions=["exact arithmetic domain; oracle arithmetic in __int128 scaled by 2^62",
                  "reference de Pina implementation is cross-validated against the brute force in the self-test of each run"])


prop("C08", harness="h_exact",
     quick=dict(shards=16, cases=400, env={"VERIF_MAXN": "20"},
                extra_phases=[dict(shards=16, cases=12, env={"VERIF_MAXN": "150", "VERIF_MAXM": "420"}, seed_offset=500),
                              dict(shards=16, cases=60, env={"VERIF_PROFILE": "gnp-wide", "VERIF_MAXN": "26", "VERIF_MAXM": "140"}, seed_offset=550),
                              dict(shards=16, cases=6, env={"VERIF_PROFILE": "dense", "VERIF_MAXN": "23"}, seed_offset=600)]),
     thorough=dict(shards=16, cases=2500, env={"VERIF_MAXN": "36"},
                   extra_phases=[dict(shards=16, cases=40, env={"VERIF_MAXN": "400", "VERIF_MAXM": "1400"}, seed_offset=500),
                                 dict(shards=16, cases=400, env={"VERIF_PROFILE": "gnp-wide", "VERIF_MAXN": "40", "VERIF_MAXM": "200"}, seed_offset=550),
                                 dict(shards=16, cases=40, env={"VERIF_PROFILE": "dense", "VERIF_MAXN": "26"}, seed_offset=600)]),
     rule="Metamorphic, oracle-free for large graphs: a generated graph G and a generated transform T (vertex+edge-order permutation, isolated "
          "vertices, pendant trees, a bridge between two components, disjoint union with a second generated graph H, subdivision of edges with "
          "w=w1+w2 exactly, scaling by 2^j). Oracle: all six exact variants/backends (signed, fvs, iso and their _tbb forms on real libtbb with "
          "generated worker limits) emit a valid basis on G, return the emitted weight and agree with each other (and with the reference optimum "
          "when n<=24); value(T(G)) == value(G) / value(G)+value(H) / value(G)*2^j. A second phase runs graphs with up to hundreds of vertices "
          "(class 'large(n>60)', 'dimension>=100'). Non-trivial = cycle-space dimension >= 3 and the transform is not 'isolated vertices'.",
     assumptions=["exact weight domain (int: all sums < 2^30)", "transforms are pure functions of (graph, recipe) so the case shrinks and replays"])
prop("C09", harness="h_exact",
     quick=dict(shards=16, cases=10000, env={"VERIF_MAXN": "12"}),
     thorough=dict(shards=16, cases=40000, env={"VERIF_MAXN": "14"}),
     rule="Generated simple graphs with INEXACT double weights in [1e-3,1e3] (decimal palettes 0.1..1.1, multiples of 0.1 / 0.01, scaled decimals, "
          "k/7, log-uniform random doubles) x all six exact variants; oracle in exact rational arithmetic (__int128 scaled by 2^62): C01 validity, "
          "|returned - exact sum| <= 1e-9*sum, exact sum <= (1+1e-9)*exact optimum (brute force / de Pina over the rationals the doubles denote). "
          "Input classes: 'near-tie' (for some ordered pair two different last edges give routes whose exact lengths agree within a relative 1e-12, exact ties included) / 'tie-free'. Non-trivial = "
          "dimension>=1 and near-tie.",
     assumptions=["weights are doubles >= 2^-10 so every weight is an exact multiple of 2^-62"])
prop("C03", harness="h_sched",
     quick=dict(shards=16, cases=2500, env={"VERIF_MAXN": "12"},
                extra_phases=[dict(shards=16, cases=200, env={"VERIF_MAXN": "30", "VERIF_MAXM": "90"}, seed_offset=400),
                              dict(shards=16, cases=8, env={"VERIF_PROFILE": "dense", "VERIF_MAXN": "23"}, seed_offset=450),
                              dict(harness="h_sched_tsan", shards=8, cases=250, env={"VERIF_MAXN": "10", "TSAN_OPTIONS": "halt_on_error=1:exitcode=66:report_signal_unsafe=0"}, seed_offset=300)]),
     thorough=dict(shards=16, cases=20000, env={"VERIF_MAXN": "22"},
                   extra_phases=[dict(shards=16, cases=120, env={"VERIF_PROFILE": "dense", "VERIF_MAXN": "26"}, seed_offset=450),
                                 dict(harness="h_sched_tsan", shards=16, cases=2500, env={"VERIF_MAXN": "12", "TSAN_OPTIONS": "halt_on_error=1:exitcode=66:report_signal_unsafe=0"}, seed_offset=300)]),
     rule="Generated graph x exact palette x the six *_tbb entry points (k in 1..4 for approximate) x a generated SCHEDULE TAPE interpreted by a "
          "drop-in mock of the used oneTBB subset (engine/mocktbb, first on the include path): any partition of each range into consecutive "
          "non-empty sub-ranges, any execution order, any grouping of consecutive sub-ranges into accumulation runs that start from a copy of the "
          "identity, any order-preserving join tree, any position of concurrent push_backs that preserves each task's own order. Tape mode "
          "(ASan+UBSan): full sequential contract (valid basis, returned==sum, ==optimum for exact, <=(2k-1)*opt for approximate). Thread mode "
          "(each leaf/run on its own std::thread, -fsanitize=thread): ThreadSanitizer decides the 'no conflicting unsynchronised accesses' clause "
          "for that partition independent of timing. Non-trivial = some parallel_reduce used >=2 accumulation runs or >=1 push_back was "
          "interleaved (counters kept by the mock).",
     assumptions=["the mock implements the documented semantics of tbb::parallel_for / functional parallel_reduce / concurrent_vector::push_back and is not more liberal than oneTBB",
                  "races inside real TBB internals are out of scope (TSan on real libtbb is unusable here: uninstrumented runtime)",
                  "real-libtbb executions of the same entry points with generated worker limits are part of C07 and C08"])
MPIRUN = ["mpiexec", "--allow-run-as-root", "--host", "localhost:64", "-n"]
prop("C04", harness="h_mpi",
     quick=dict(shards=4, cases=4000, parallel=1, timeout=900, env={"VERIF_MAXN": "12"}, launcher=MPIRUN + ["8"],
                extra_phases=[dict(shards=2, cases=3000, launcher=MPIRUN + ["3"], seed_offset=100, replay_with=False),
                              dict(shards=1, cases=1500, launcher=MPIRUN + ["1"], seed_offset=200, replay_with=False),
                              dict(shards=2, cases=3000, launcher=MPIRUN + ["7"], seed_offset=250, replay_with=False),
                              dict(shards=2, cases=5000, launcher=MPIRUN + ["13"], seed_offset=300, replay_with=False),
                              dict(shards=2, cases=4000, launcher=MPIRUN + ["11"], seed_offset=330, replay_with=False),
                              dict(shards=2, cases=2000, env={"VERIF_PROFILE": "dense", "VERIF_MAXN": "12"}, launcher=MPIRUN + ["8"], seed_offset=350, replay_with=False)]),
     thorough=dict(shards=8, cases=12000, parallel=1, timeout=6000, env={"VERIF_MAXN": "16"}, launcher=MPIRUN + ["8"],
                   extra_phases=[dict(shards=4, cases=8000, launcher=MPIRUN + ["3"], seed_offset=100, replay_with=False),
                                 dict(shards=4, cases=8000, launcher=MPIRUN + ["5"], seed_offset=150, replay_with=False),
                                 dict(shards=2, cases=4000, launcher=MPIRUN + ["1"], seed_offset=200, replay_with=False),
                                 dict(shards=4, cases=10000, launcher=MPIRUN + ["7"], seed_offset=250, replay_with=False),
                                 dict(shards=4, cases=10000, launcher=MPIRUN + ["11"], seed_offset=280, replay_with=False),
                                 dict(shards=4, cases=10000, launcher=MPIRUN + ["13"], seed_offset=300, replay_with=False),
                                 dict(shards=4, cases=8000, env={"VERIF_PROFILE": "dense", "VERIF_MAXN": "14"}, launcher=MPIRUN + ["8"], seed_offset=350, replay_with=False)]),
     rule="mpiexec jobs of 8, 3, 7, 13 and 1 processes (5 and 11 as well in thorough), one of them on near-complete graphs. Rank 0 drives rapidcheck; every evaluation is broadcast as case text and executed "
          "collectively: a generated size P in 1..world selects the first P ranks through communicator::split, each selected rank perturbs its "
          "allocator state with a generated, rank-mixed LAYOUT TAPE (allocate 64 node-sized blocks, shuffle, free a subset) before building the "
          "identical graph, then all P ranks call the generated MPI entry point (five of them) on the sub-communicator. Oracle at rank 0: every "
          "rank returned (job watchdog), no rank threw, ranks != 0 emitted nothing, rank 0's output is a valid basis with returned == sum == "
          "reference optimum and equal sorted weight vector. Non-trivial = P>=2, dimension>=2 and at least two ranks ended up with different "
          "address orders of the edge properties (hash of the pointer-order permutation gathered from all ranks).",
     assumptions=["exact weight domain", "heap layouts are sampled through allocator perturbation (glibc malloc; harness built with UBSan only, no ASan), not enumerated",
                  "deadlock is observed through a generous wall-clock watchdog on the whole job, replayed 3x before it is reported"])
prop("C05", harness="h_approx",
     quick=dict(shards=16, cases=3000, env={"VERIF_MAXN": "16"},
                extra_phases=[dict(shards=16, cases=200, env={"VERIF_MAXN": "45", "VERIF_MAXM": "130"}, seed_offset=400)]),
     thorough=dict(shards=16, cases=20000, env={"VERIF_MAXN": "40"},
                   extra_phases=[dict(shards=16, cases=1500, env={"VERIF_MAXN": "90", "VERIF_MAXM": "260"}, seed_offset=400)]),
     rule="Generated graphs x exact palettes x {double,int} x k in {1,2,3,4..8,100,10^6,2^62+1} x three sequential approximate entry points; "
          "oracle: exactly m-n+c cycles, each one simple cycle expressed in edge descriptors OF THE CALLER'S GRAPH (property-address identity, "
          "checked and dereferenced through the caller's weight map after the call returned, under ASan), GF(2) rank == count, returned == exact "
          "sum under the caller's weights. Non-trivial = the spanner kept at least one cycle (so the exact phase contributed) and at least one "
          "edge was dropped (read through the guarded accessors).",
     assumptions=["exact weight domain", "Graph has an interior edge_weight property of the weight type (required by BaseApproxSpannerAlgorithm)"])
prop("C06", harness="h_approx",
     quick=dict(shards=16, cases=8000, env={"VERIF_MAXN": "12"},
                extra_phases=[dict(shards=16, cases=300, env={"VERIF_MAXN": "48", "VERIF_MAXM": "110"}, seed_offset=400)]),
     thorough=dict(shards=16, cases=20000, env={"VERIF_MAXN": "30"},
                   extra_phases=[dict(shards=16, cases=1200, env={"VERIF_MAXN": "45", "VERIF_MAXM": "140"}, seed_offset=400)]),
     rule="As C05 plus k=0; oracle: exact integer comparison sum <= (2k-1)*opt and sum >= opt against the reference optimum (brute force / de Pina); "
          "k=1: sum == opt and equal sorted weight vectors; k=0: a std::exception is thrown and nothing is emitted. Non-trivial = k>=2 and >=1 "
          "dropped edge (class 'approximation-strictly-worse-than-optimum' counts the cases where the bound is really exercised).",
     assumptions=["exact weight domain; bound checked for k <= 10^6 (for larger k it is implied by validity)"])
prop("C15", harness="h_approx",
     quick=dict(shards=16, cases=12000, env={"VERIF_MAXN": "20"},
                extra_phases=[dict(shards=16, cases=800, env={"VERIF_MAXN": "70", "VERIF_MAXM": "400"}, seed_offset=400)]),
     thorough=dict(shards=16, cases=25000, env={"VERIF_MAXN": "40"},
                   extra_phases=[dict(shards=16, cases=3000, env={"VERIF_MAXN": "150", "VERIF_MAXM": "900"}, seed_offset=400)]),
     rule="BaseApproxSpannerAlgorithm constructed (no run) on generated graphs with tie-heavy palettes, k in 1..8; oracle through the guarded read-only "
          "accessors: spanner has n vertices; translation map is a bijection between spanner edges and retained input edges with equal endpoints; "
          "spanner weight == input weight per retained edge; retained and dropped partition E; every dropped (u,v) has a BFS path of <= 2k-1 "
          "retained edges none heavier than it; BFS girth of the retained subgraph > 2k. Non-trivial = k>=2, >=1 dropped edge, retained subgraph has a cycle.",
     assumptions=["exact weight domain", "hook PARMCB_VERIF accessors are read-only"])
prop("C10", harness="h_dimacs",
     quick=dict(shards=16, cases=6000, fuzz=dict(harness="fz_dimacs", jobs=4, runs=150000, max_len=512, seed_corpus="corpus/dimacs")),
     thorough=dict(shards=16, cases=100000, fuzz=dict(harness="fz_dimacs", jobs=16, time=180, max_len=1024, seed_corpus="corpus/dimacs")),
     rule="Structure-aware DIMACS text generator (up to 3000 vertices and 400 edge lines, comments 'c'/'#' with arbitrary printable payload up to the longest line the 1024-byte buffer takes whole, edge lines padded with hundreds of separators, problem word palette, "
          "arbitrary declared m, 'e'/'a' edge lines with space/tab separators, loops and repeated pairs, optional weight tokens: integer, decimal, "
          "negative, zero, exponent; optional edge naming vertex 0 or n+1; trailing newline present/absent) fed through fmemopen; oracle = an "
          "independent reference parser of the same bytes: vertex count, edges in file order with the same endpoints, weight == strtod(token) or 1 "
          "exactly, exception iff an undeclared vertex is named, has_loops / has_non_positive_weights / has_multiple_edges == recomputation. "
          "Non-trivial = >=1 edge line and (no trailing newline or an omitted weight or a comment between edge lines).",
     assumptions=["lines of at most 1022 bytes plus newline, no blank lines, no CR/NUL bytes, exactly one problem line before the first edge line (the stated domain)",
                  "graph type adjacency_list<vecS,vecS,undirectedS,no_property,edge_weight double> as in the demos"])
prop("C17", harness="h_alg",
     quick=dict(shards=16, cases=8000),
     thorough=dict(shards=16, cases=60000),
     rule="Model-based history check: generated operation lists (<=60 ops: unit/set/copy/move construction and assignment incl. self-assignment, "
          "+, += incl. aliasing, clear, vector*vector, vector*set) over 4 registers and dimension 1..70 against a dense vector<bool> model; after "
          "EVERY operation all registers must list exactly the model's ones in strictly increasing order with matching size(); products equal the "
          "model parity. Non-trivial = history contains a + / += with overlapping operands and a later product.",
     assumptions=["moved-from vectors are cleared before reuse (their state is unspecified)", "indices < dimension"])
prop("C18", harness="h_alg",
     quick=dict(shards=16, cases=25000),
     thorough=dict(shards=16, cases=100000),
     rule="Generated arguments for T in {int,long,cpp_int}: ext_gcd over all sign/zero patterns, a=+-b, a|b, consecutive Fibonacci, random magnitudes; "
          "get_mult_inverse for prime and composite moduli, any sign of a; is_prime over small values, prime squares, Carmichael numbers, searched "
          "primes, the top of each type's range; SpVecFP operation lists (=index,+,+=,*scalar incl. negative/zero/huge,*=,dot,copy,move,clear) against a "
          "dense cpp_int model mod p checked after every op. Oracle arithmetic in cpp_int; is_prime oracle = deterministic Miller-Rabin. "
          "Non-trivial = ext_gcd with a zero/negative argument, inverse with gcd!=1 or negative a or p<=3, is_prime of a prime or p<=3, SpVecFP with a "
          "negative scalar or p<=3.",
     assumptions=["built-in types: |a|,|b| < 2^15 (int) / 2^31 (long) for ext_gcd and p <= 46340 / 3037000499 for inverses and SpVecFP so that a*x, (p-1)^2 "
                  "and |scalar|*p are representable in T (the equations of the property must be evaluable in the type); cpp_int unrestricted up to 2^200",
                  "is_prime: whole int range; long/cpp_int restricted by trial-division cost to p < 2^36 or numbers with a factor <= 997"])
prop("C12", harness="h_comp",
     quick=dict(shards=16, cases=8000, env={"VERIF_MAXN": "14"},
                extra_phases=[dict(shards=16, cases=250, env={"VERIF_MAXN": "40", "VERIF_MAXM": "120"}, seed_offset=400)]),
     thorough=dict(shards=16, cases=30000, env={"VERIF_MAXN": "22"},
                   extra_phases=[dict(shards=16, cases=1500, env={"VERIF_MAXN": "60", "VERIF_MAXM": "200"}, seed_offset=400)]),
     rule="Generated graphs with tie-heavy exact palettes (80% unit/{1,2}/{1,2,3}) x {double,int}; all n SPTree objects are built and "
          "compared with an exact Dijkstra APSP oracle: node==nullptr iff unreachable, weight()==d(s,v), every pred edge tight, pred chain "
          "reaches the root, first(v)==child of root on the path; across trees: path(u,v)==reverse path(v,u) and every sub-path of a chosen "
          "path is the chosen path between its endpoints. Non-trivial = some ordered pair has >=2 distinct shortest paths (path counting in the oracle).",
     assumptions=["exact weight domain", "index/weight maps outlive the trees (as in the library's own callers)"])
prop("C13", harness="h_comp",
     quick=dict(shards=16, cases=20000, env={"VERIF_MAXN": "30"},
                extra_phases=[dict(shards=16, cases=600, env={"VERIF_MAXN": "300", "VERIF_MAXM": "900"}, seed_offset=400)]),
     thorough=dict(shards=16, cases=80000, env={"VERIF_MAXN": "60"},
                   extra_phases=[dict(shards=16, cases=800, env={"VERIF_MAXN": "1500", "VERIF_MAXM": "5000"}, seed_offset=400)]),
     rule="Generated simple graphs (all shapes, extra pendant trees) -> greedy_fvs; oracle: outputs are vertices, pairwise distinct, removing "
          "them leaves a forest (union-find), forest input -> empty output. Non-trivial = graph has a cycle and, replaying the emitted order, "
          "removing a chosen vertex triggers at least one leaf clean-up removal.",
     assumptions=["simple undirected graphs"])
prop("C14", harness="h_comp",
     quick=dict(shards=16, cases=2500, env={"VERIF_MAXN": "12"},
                extra_phases=[dict(shards=16, cases=100, env={"VERIF_MAXN": "30", "VERIF_MAXM": "90"}, seed_offset=400),
                              dict(shards=16, cases=10, env={"VERIF_MAXN": "100", "VERIF_MAXM": "220"}, seed_offset=450),
                              dict(shards=16, cases=25, env={"VERIF_PROFILE": "dense", "VERIF_MAXN": "16"}, seed_offset=480)]),
     thorough=dict(shards=16, cases=20000, env={"VERIF_MAXN": "20"},
                   extra_phases=[dict(shards=16, cases=1200, env={"VERIF_MAXN": "45", "VERIF_MAXM": "140"}, seed_offset=400)]),
     rule="Generated graphs x exact palettes x {double,int}; Horton, FVS and ISO builders called directly. Oracle per candidate: edge not a "
          "tree edge, both root paths exist and meet only at the root, union is one simple cycle, recorded weight == exact sum; FVS and ISO "
          "are subsets of Horton as (root,edge) pairs with identical cycles; greedy-by-weight with GF(2) independence over each collection "
          "reaches dimension m-n+c and the reference optimum weight. Non-trivial = dimension>=2 and |ISO|<|Horton|.",
     assumptions=["exact weight domain"])
prop("C16", harness="h_comp",
     quick=dict(shards=16, cases=12000, env={"VERIF_MAXN": "30"},
                extra_phases=[dict(shards=16, cases=60, env={"VERIF_MAXN": "1300", "VERIF_MAXM": "4000"}, seed_offset=400),
                              dict(shards=16, cases=300, env={"VERIF_MAXN": "300", "VERIF_MAXM": "700"}, seed_offset=450)]),
     thorough=dict(shards=16, cases=100000, env={"VERIF_MAXN": "60"},
                   extra_phases=[dict(shards=16, cases=120, env={"VERIF_MAXN": "5000", "VERIF_MAXM": "20000"}, seed_offset=400),
                                 dict(shards=16, cases=5000, env={"VERIF_MAXN": "300", "VERIF_MAXM": "700"}, seed_offset=450)]),
     rule="Generated simple graphs incl. empty, edgeless, forests, many components; oracle: indices are a bijection onto 0..m-1, both lookups "
          "inverse, components == union-find count, dimension == m-n+c, is_on_forest iff index>=dimension, on-forest edges acyclic and n-c many, "
          "copy/assignment preserve the mapping. Non-trivial = >=2 components and dimension>=1.",
     assumptions=["simple undirected graphs"])


# ----------------------------------------------------------------------------- running shards
def run_proc(cmd, env, timeout, cwd=None):
    """Run; on timeout send SIGABRT (harness dumps its current case) then kill. Returns (rc, out, timed_out)."""
    e = dict(os.environ)
    e.update(env)
    p = subprocess.Popen(cmd, stdout=subprocess.PIPE, stderr=subprocess.STDOUT, env=e, cwd=cwd, text=True,
                         errors="replace", start_new_session=True)
    try:
        out, _ = p.communicate(timeout=timeout)
        return p.returncode, out, False
    except subprocess.TimeoutExpired:
        try:
            os.killpg(p.pid, signal.SIGABRT)
        except ProcessLookupError:
            pass
        try:
            out, _ = p.communicate(timeout=20)
        except subprocess.TimeoutExpired:
            try:
                os.killpg(p.pid, signal.SIGKILL)
            except ProcessLookupError:
                pass
            out, _ = p.communicate()
        return -9, out, True


def run_shard(binp, pid, seed, cases, env, excludes, workdir, idx, timeout, max_size=100, launcher=None):
    statp = os.path.join(workdir, "stats-%s-%d.json" % (pid, idx))
    if os.path.exists(statp):
        os.remove(statp)
    cmd = [binp, "--property", pid, "--stats", statp, "--newdir", os.path.join(workdir, "new-%d" % idx)]
    if excludes:
        cmd += ["--exclude", ",".join(excludes)]
    if launcher:
        cmd = launcher + cmd
    e = dict(ASAN_ENV)
    e.update(env or {})
    e["RC_PARAMS"] = "seed=%d max_success=%d max_size=%d" % (seed, cases, max_size)
    if launcher:   # mpiexec: private session directory per launch (concurrent launches race on /tmp/ompi.<host>.<uid>)
        td = os.path.join(workdir, "ompi-%d" % idx)
        os.makedirs(td, exist_ok=True)
        e["TMPDIR"] = td
        e["OMPI_MCA_orte_tmpdir_base"] = td
    rc, out, to = run_proc(cmd, e, timeout)
    if launcher and launcher[0] == "mpiexec" and rc != 0 and not to and not os.path.exists(statp) and \
            re.search(r"orte_init|opal_init|unable to create the desired directory|not enough slots|ORTE_ERROR", out):
        time.sleep(2)   # launcher infrastructure failure before the harness started: retry once
        rc, out, to = run_proc(cmd, e, timeout)
    st = None
    if os.path.exists(statp):
        try:
            st = json.load(open(statp))
        except Exception as ex:  # truncated
            st = None
    cur = statp + ".current"
    if (to or rc != 0) and os.path.exists(cur) and not (st and (st.get("death_case") or st.get("failures"))):
        st = st or {}
        st["death_case"] = open(cur).read()   # MPI harness: the case rank 0 published last
    return dict(idx=idx, rc=rc, out=out, timed_out=to, stats=st, seed=seed)


def replay_once(binp, pid, path, env, timeout=120, launcher=None, workdir=None):
    workdir = workdir or os.path.dirname(path)
    statp = os.path.join(workdir, "replay-stats-%d.json" % os.getpid())
    try:
        cp = case_field(open(path).read(), "property")
    except OSError:
        cp = ""
    cmd = [binp, "--property", cp or pid, "--stats", statp, "--replay", path]
    if launcher:
        cmd = launcher + cmd
    e = dict(ASAN_ENV)
    e.update(env or {})
    if launcher:
        td = os.path.join(workdir, "ompi-replay-%d" % os.getpid())
        os.makedirs(td, exist_ok=True)
        e["TMPDIR"] = td
        e["OMPI_MCA_orte_tmpdir_base"] = td
    rc, out, to = run_proc(cmd, e, timeout)
    st = None
    if os.path.exists(statp):
        try:
            st = json.load(open(statp))
        except Exception:
            pass
        os.remove(statp)
    key = None
    msg = ""
    if to:
        key, msg = "hang", "replay exceeded %ds" % timeout
    elif rc == 0:
        return dict(failed=False, key=None, msg="", out=out)
    elif st and st.get("failures"):
        key, msg = st["failures"][0]["key"], st["failures"][0]["message"]
    elif rc == 2 and not (st and st.get("death")):
        return dict(failed=False, key=None, msg="machinery: " + out[-500:], out=out, machinery=True)
    else:
        key, msg = "crash", crash_summary(out)
    return dict(failed=True, key=key, msg=msg, out=out)


def crash_summary(out):
    for line in out.splitlines():
        if re.match(r"==\d+== (Conditional jump|Use of uninitialised|Invalid|Syscall param|Mismatched|Source and destination)", line):
            return line.strip()[:300]
        if "ERROR: AddressSanitizer" in line or "runtime error:" in line or "ERROR: LeakSanitizer" in line \
                or "Assertion" in line or "ThreadSanitizer" in line or "terminate called" in line:
            return line.strip()[:300]
    tail = out.strip().splitlines()[-3:]
    return " | ".join(tail)[:300]


def crash_class(out):
    if re.search(r"^==\d+== (Conditional jump or move depends on uninitialised|Use of uninitialised|Syscall param .* uninitialised)", out, re.M):
        return "valgrind-uninitialised-value"
    if re.search(r"^==\d+== (Invalid (read|write|free)|Mismatched free|Source and destination overlap)", out, re.M):
        return "valgrind-invalid-access"
    if "AddressSanitizer" in out:
        m = re.search(r"AddressSanitizer: ([\w-]+)", out)
        return "asan-" + (m.group(1) if m else "error")
    if "LeakSanitizer" in out:
        return "leak"
    if "runtime error:" in out:
        return "ubsan"
    if "ThreadSanitizer" in out:
        return "tsan-data-race"
    if "Assertion" in out:
        return "assert"
    if "terminate called" in out:
        return "terminate"
    return "crash"


def case_field(text, field):
    for line in text.splitlines():
        if line.startswith(field + " "):
            return line[len(field) + 1:].strip()
    return ""


def minimise_crash_case(binp, pid, text, env, workdir, wanted_class, launcher=None, budget=150):
    """Delta loop on the case text for failures that kill the process (no in-process shrinking possible)."""
    tmp = os.path.join(workdir, "min-%d.case" % os.getpid())

    def fails(t):
        with open(tmp, "w") as f:
            f.write(t)
        r = replay_once(binp, pid, tmp, env, timeout=60, launcher=launcher, workdir=workdir)
        return r["failed"] and (r["key"] in ("crash", "hang") and (crash_class(r["out"]) == wanted_class or r["key"] == wanted_class)
                                or (r["key"] or "").endswith(wanted_class))
    lines = text.splitlines()
    progress = True
    while progress and budget > 0:
        progress = False
        i = len(lines) - 1
        while i >= 0 and budget > 0:
            if lines[i].startswith("e "):
                cand = lines[:i] + lines[i + 1:]
                budget -= 1
                if fails("\n".join(cand) + "\n"):
                    lines = cand
                    progress = True
            i -= 1
    return "\n".join(lines) + "\n"


def run_fuzz_job(binp, pid, seed, fzconf, env, workdir, idx):
    """One libFuzzer process with a fresh corpus.  Returns a result dict shaped like run_shard's plus 'cases'."""
    corp = os.path.join(workdir, "corpus-%d" % idx)
    outd = os.path.join(workdir, "fzout-%d" % idx)
    art = os.path.join(workdir, "art-%d-" % idx)
    os.makedirs(corp, exist_ok=True)
    seed_corpus = fzconf.get("seed_corpus")
    if seed_corpus and idx % 2 == 1:   # odd jobs start from the committed seed corpus, even jobs from an empty one
        for f in glob.glob(os.path.join(VERIF, seed_corpus, "*")):
            shutil.copy(f, corp)
    statp = os.path.join(workdir, "fzstats-%d.json" % idx)
    cmd = [binp, "-seed=%d" % seed, "-max_len=%d" % fzconf.get("max_len", 512), "-artifact_prefix=" + art,
           "-print_final_stats=0", "-verbosity=0"]
    if "runs" in fzconf:
        cmd.append("-runs=%d" % fzconf["runs"])
    if "time" in fzconf:
        cmd.append("-max_total_time=%d" % fzconf["time"])
    cmd.append(corp)
    e = dict(ASAN_ENV)
    e.update(env or {})
    e["VERIF_FUZZ_STATS"] = statp
    e["VERIF_FUZZ_OUT"] = outd
    rc, out, to = run_proc(cmd, e, fzconf.get("timeout", 3600))
    st = None
    if os.path.exists(statp):
        try:
            st = json.load(open(statp))
        except Exception:
            st = None
    cases = []
    for f in sorted(glob.glob(os.path.join(outd, "*.case"))):
        txt = open(f).read()
        m = re.search(r"^# key (\S+)", txt, re.M)
        body = "\n".join(l for l in txt.splitlines() if not l.startswith("#")) + "\n"
        cases.append((body, m.group(1) if m else "fuzz-failure", "libFuzzer semantic oracle failure", False))
    if not cases:
        # sanitizer crash inside the library: decode the artifact into a case through the target's dump mode
        for a in sorted(glob.glob(art + "crash-*")) + sorted(glob.glob(art + "leak-*")):
            dumpp = os.path.join(workdir, "dump-%d.case" % idx)
            e2 = dict(e)
            e2["VERIF_FUZZ_DUMP"] = dumpp
            rc2, out2, _ = run_proc([binp, a], e2, 120)
            if os.path.exists(dumpp):
                cases.append((open(dumpp).read(), crash_class(out2 or out), crash_summary(out2 or out), True))
    return dict(idx=1000 + idx, rc=(0 if not cases else 1), out=out, timed_out=False, stats=st, seed=seed, cases=cases)


def merge_stats(results):
    ev = 0
    hashes = set()
    classes = {}
    excluded = {}
    samples = []
    for r in results:
        st = r["stats"]
        if not st:
            continue
        ev += st.get("evaluations", 0)
        hashes.update(st.get("nontrivial_hashes", []))
        for k, v in st.get("classes", {}).items():
            classes[k] = classes.get(k, 0) + v
        for k, v in st.get("excluded", {}).items():
            excluded[k] = excluded.get(k, 0) + v
        for s in st.get("samples", [])[:2]:
            if len(samples) < 10:
                samples.append(s)
    return ev, hashes, classes, excluded, samples


def write_evidence(pid, tier, seed, level, coverage, assumptions, wall, violations):
    os.makedirs(EVID, exist_ok=True)
    ev = dict(property_id=pid, tier=tier, seed=seed, level=level, coverage=coverage,
              assumptions=assumptions, wall_s=round(wall, 2), violations=violations)
    tmp = os.path.join(EVID, pid + ".json.tmp")
    with open(tmp, "w") as f:
        json.dump(ev, f, indent=1)
    os.replace(tmp, os.path.join(EVID, pid + ".json"))


def committed_replays(pid):
    return sorted(glob.glob(os.path.join(REPLAYS, pid, "*.case")))


def confirm_and_report(binp, pid, casepath, env, launcher=None, expect_key=None, timeout=120):
    """Replay 3x; all must fail.  Returns (confirmed, key, msg)."""
    key = msg = None
    for i in range(3):
        r = replay_once(binp, pid, casepath, env, timeout=timeout, launcher=launcher)
        if not r["failed"]:
            return False, None, r.get("msg", "")
        k = r["key"]
        if k == "crash":
            k = crash_class(r["out"])
        key, msg = k, r["msg"]
    return True, key, msg


def full_key(pid, key, casetext):
    if key and key.startswith(pid + "/"):
        return key
    if key and re.match(r"^C\d\d\w*/", key):   # produced by a helper property of another harness (e.g. C07E): re-root under pid
        return pid + "/" + key.split("/", 1)[1]
    entry = case_field(casetext, "entry") or "-"
    return "%s/%s/any/%s" % (pid, entry, key)


def phase_bins(pid, conf):
    """All (binary, env, launcher) combinations a property's tier uses; replays go through each of them."""
    P = PROPS[pid]
    out = [(build_harness(P["harness"]), dict(conf.get("env", {})), conf.get("launcher"))]
    for ph in conf.get("extra_phases", []):
        if ph.get("harness") and ph.get("replay_with", True):
            e = dict(conf.get("env", {}))
            e.update(ph.get("env", {}))
            out.append((build_harness(ph["harness"]), e, ph.get("launcher", conf.get("launcher"))))
    return out


def replay_all(pid, conf, path, workdir=None, timeout=120):
    """Replay through every binary of the property; first failing result wins."""
    last = None
    try:
        cp = case_field(open(path).read(), "property")
    except OSError:
        cp = ""
    try:
        case_ranks = int(case_field(open(path).read(), "ranks") or "1")
    except (OSError, ValueError):
        case_ranks = 1
    for binp, env, launcher in phase_bins(pid, conf):
        if launcher and launcher[0] == "mpiexec" and launcher[-2] == "-n" and int(launcher[-1]) < case_ranks:
            launcher = launcher[:-1] + [str(case_ranks)]   # an MPI case is replayed with at least as many processes as it names
        hname = os.path.basename(binp)
        if cp and cp != pid and not binary_knows(hname, cp):
            continue
        r = replay_once(binp, pid, path, env, launcher=launcher, workdir=workdir, timeout=timeout)
        r["binp"], r["env"], r["launcher"] = binp, env, launcher
        if r["failed"]:
            return r
        last = r
    return last or dict(failed=False, key=None, msg="no binary replayed this case", out="")


def binary_knows(hname, prop):
    return True


def run_rc_property(pid, tier, conf=None):
    """Generic rapidcheck-sharded property run."""
    P = PROPS[pid]
    conf = conf or P[tier]
    seed = seed_value()
    t0 = time.time()
    binp = build_harness(P["harness"])
    workdir = os.path.join(BUILD, "run-%s-%d" % (pid, os.getpid()))
    shutil.rmtree(workdir, ignore_errors=True)
    os.makedirs(workdir)
    env = dict(conf.get("env", {}))
    launcher = conf.get("launcher")
    findings = open_findings(pid)
    excludes = [f["key"] for f in findings]
    violations = []   # (key, msg, path)
    notes = []
    known_hit = {}

    # 1. committed regression replays
    n_replayed = 0
    for rp in committed_replays(pid):
        n_replayed += 1
        r = replay_all(pid, conf, rp, workdir=workdir)
        if r["failed"]:
            k = r["key"] if r["key"] != "crash" else crash_class(r["out"])
            fk = full_key(pid, k, open(rp).read())
            if any(key_matches(fk, f["key"]) for f in findings):
                known_hit[fk] = known_hit.get(fk, 0) + 1
                continue
            ok, k2, msg = confirm_and_report(r["binp"], pid, rp, r["env"], launcher=r["launcher"])
            if ok:
                violations.append((fk, msg, rp))
            else:
                notes.append("flaky committed replay %s" % rp)

    # 2. generated search
    shards = conf["shards"]
    cases = conf["cases"]
    timeout = conf.get("timeout", 3000)
    par = conf.get("parallel", NCPU)
    with ThreadPoolExecutor(max_workers=par) as ex:
        futs = [ex.submit(run_shard, binp, pid, seed * 1000 + i, cases, env, excludes, workdir, i, timeout,
                          conf.get("max_size", 100), launcher) for i in range(shards)]
        bins = [binp] * shards
        launchers = [launcher] * shards
        envs = [env] * shards
        base_idx = shards
        for ph in conf.get("extra_phases", []):
            penv = dict(env)
            penv.update(ph.get("env", {}))
            pbin = build_harness(ph["harness"]) if ph.get("harness") else binp
            for i in range(ph["shards"]):
                futs.append(ex.submit(run_shard, pbin, ph.get("property", pid), seed * 1000 + ph.get("seed_offset", 500) + i, ph["cases"], penv, excludes,
                                      workdir, base_idx + i, ph.get("timeout", timeout), conf.get("max_size", 100), ph.get("launcher", launcher)))
                bins.append(pbin)
                launchers.append(ph.get("launcher", launcher))
                envs.append(penv)
            base_idx += ph["shards"]
        results = [f.result() for f in futs]
        for r, b, l, e in zip(results, bins, launchers, envs):
            r["binp"], r["launcher"], r["env"] = b, l, e   # a failure is minimised and confirmed with the launcher and environment that found it
    fz = conf.get("fuzz")
    fuzz_execs = 0
    if fz:
        fbin = build_harness(fz["harness"])
        with ThreadPoolExecutor(max_workers=fz.get("jobs", 4)) as ex:
            ffuts = [ex.submit(run_fuzz_job, fbin, pid, seed * 100 + j + 1, fz, env, workdir, j) for j in range(fz.get("jobs", 4))]
            fres = [f.result() for f in ffuts]
        fuzz_execs = sum((r["stats"] or {}).get("evaluations", 0) for r in fres)
        results += fres
    ev, hashes, classes, excluded, samples = merge_stats(results)
    inconclusive = 0
    os.makedirs(NEWDIR, exist_ok=True)
    for r in results:
        st = r["stats"] or {}
        cand = []   # (casetext, key)
        if r.get("cases") is not None:
            cand = list(r["cases"])
        elif st.get("failures"):
            for f in st["failures"]:
                cand.append((f["case"], f["key"], f["message"], False))
        elif r["timed_out"]:
            if st.get("death_case"):
                cand.append((st["death_case"], "hang", "shard exceeded %ds wall budget" % timeout, True))
            else:
                inconclusive += 1
                notes.append("shard %d timed out without a current case" % r["idx"])
        elif r["rc"] != 0:
            if st.get("death_case"):
                cand.append((st["death_case"], crash_class(r["out"]), crash_summary(r["out"]), True))
            elif r["rc"] == 2:
                raise RuntimeError("harness machinery error in shard %d:\n%s" % (r["idx"], r["out"][-3000:]))
            else:
                raise RuntimeError("shard %d died (rc=%s) without a case record:\n%s" % (r["idx"], r["rc"], r["out"][-3000:]))
        for text, key, msg, hard in cand:
            fk = full_key(pid, key, text)
            if any(key_matches(fk, f["key"]) for f in findings):
                known_hit[fk] = known_hit.get(fk, 0) + 1
                continue
            if any(v[0] == fk for v in violations):
                continue   # one confirmed replay per failure key is enough; do not minimise/confirm duplicates from other shards
            if hard and key != "hang":
                try:
                    text = minimise_crash_case(r.get("binp", binp), pid, text, r.get("env", env), workdir, key, launcher=r.get("launcher", launcher))
                except Exception as exn:  # minimisation is best effort
                    notes.append("minimisation failed: %s" % exn)
            name = "%s-%s.case" % (pid, hashlib.sha1(text.encode()).hexdigest()[:16])
            path = os.path.join(NEWDIR, name)
            with open(path, "w") as f:
                f.write("# key %s\n# %s\n" % (fk, msg.replace("\n", " ")[:400]))
                f.write(text)
            ok, k2, m2 = confirm_and_report(r.get("binp", binp), pid, path, r.get("env", env), launcher=r.get("launcher", launcher),
                                            timeout=(600 if key == "hang" else 120))
            if ok:
                if not any(v[0] == fk for v in violations):
                    violations.append((fk, m2 or msg, path))
                elif not any(v[2] == path for v in violations):
                    os.remove(path)
            else:
                notes.append("non-reproducible failure %s (%s) -> flaky, not reported" % (fk, msg[:200]))
                if not any(v[2] == path for v in violations):
                    os.remove(path)

    if conf.get("post"):
        pe, ph, pc, ps, pv, pn = conf["post"](pid, tier, findings)
        ev += pe
        hashes |= set(ph)
        classes.update(pc)
        samples = samples[:8] + ps
        notes += pn
        for v in pv:
            if not any(x[0] == v[0] for x in violations):
                violations.append(v)

    # 3. known findings
    for f in findings:
        print("KNOWN-FINDING: property=%s %s" % (pid, f["what"]))
        hits = sum(v for k, v in list(excluded.items()) + list(known_hit.items()) if key_matches(k, f["key"]))
        notes.append("known finding %s: %d generated cases excluded" % (f["key"], hits))

    wall = time.time() - t0
    coverage = dict(evaluations=ev, distinct_nontrivial=len(hashes), rule=P["rule"], samples=samples,
                    classes=classes, shards=shards, cases_per_shard=cases, committed_replays=n_replayed,
                    excluded_known_findings=excluded, inconclusive_shards=inconclusive, notes=notes,
                    libfuzzer_executions=fuzz_execs, harness=P["harness"], violations_found=[dict(key=k, message=m, replay=p) for k, m, p in violations])
    write_evidence(pid, tier, seed, "exploration", coverage, P.get("assumptions", []), wall, len(violations))
    shutil.rmtree(workdir, ignore_errors=True)
    for k, m, p in violations:
        print("VIOLATION property=%s replay=%s" % (pid, p))
        log("  key=%s  %s" % (k, m))
    return 1 if violations else 0


# ----------------------------------------------------------------------------- C19 (programs -> compiler/linker)
def run_c19(pid, tier):
    import headers as H
    from hypothesis import given, settings, seed as hseed, strategies as st, HealthCheck, Phase
    t0 = time.time()
    sd = seed_value()
    th = tree_hash(["c19"])
    workdir = os.path.join(BUILD, "c19-" + th)
    for old in glob.glob(os.path.join(BUILD, "c19-*")):
        try:
            if old != workdir and time.time() - os.path.getmtime(old) > 2 * 3600:
                shutil.rmtree(old, ignore_errors=True)
        except OSError:
            pass
    b = H.Builder(REPO, workdir, gen_config)
    hs = H.public_headers(REPO)
    findings = open_findings(pid)
    failures = {}   # key -> (msg, program)
    evaluations = 0
    nontrivial = set()
    samples = []
    classes = {}

    def record(res, tus):
        if res is not None and res[0] not in failures:
            failures[res[0]] = (res[1], tus)

    pool = ThreadPoolExecutor(max_workers=NCPU)
    # class 1: every header alone and first, both configurations (exhaustive); thorough adds clang++ and the "use" variant in syntax-only mode
    jobs = []
    cxxs = ["g++"] if tier == "quick" else ["g++", "clang++"]
    for h in hs:
        for cfg in ("on", "off"):
            for cxx in cxxs:
                tus = [(cfg, False, cxx, [h])]
                jobs.append((tus, pool.submit(H.check_program, b, tus, False)))
    # class 2: one object per header with its instantiation snippet (config on), then ALL pairs linked (exhaustive)
    objjobs = []
    for h in hs:
        tus = [("on", True, "g++", [h])]
        objjobs.append((h, tus, pool.submit(b.compile, [h], "on", True, "g++", False)))
    # class 2b: configuration without TBB/MPI: one plain object per header (non-inline definitions are emitted whether used or not)
    offjobs = []
    for h in hs:
        offjobs.append((h, pool.submit(b.compile, [h], "off", False, "g++", False)))
    # class 2c: two headers in ONE translation unit, both orders, with both instantiation snippets: every header together with
    # each umbrella header in quick, all ordered pairs in thorough
    umbrellas = [h for h in hs if h in ("parmcb/parmcb.hpp", "parmcb/mpi/parmcb.hpp")]
    samejobs = []
    for a in hs:
        for c in hs:
            if a == c:
                continue
            if tier == "quick" and a not in umbrellas and c not in umbrellas:
                continue
            tus = [("on", True, "g++", [a, c])]
            samejobs.append((tus, pool.submit(H.check_program, b, tus, False)))
    # class 2e: the repository's PARMCB_LOGGING option switched on: one object per header with its snippet (instantiates the
    # logging code paths), all pairs linked
    logjobs = []
    for h in hs:
        logjobs.append((h, pool.submit(b.compile, [h], "log", True, "g++", False)))
    # class 2d: the snippets instantiated with int edge weights (the second weight type the properties name), syntax only
    intjobs = []
    for h in hs:
        if h in H.SNIP and "vg_t" in H.SNIP[h]:
            tus = [("on", "int", "g++", [h])]
            intjobs.append((tus, pool.submit(H.check_program, b, tus, False)))
    for tus, f in jobs:
        evaluations += 1
        classes["singleton-" + tus[0][0]] = classes.get("singleton-" + tus[0][0], 0) + 1
        nontrivial.add(H.program_text(tus))
        record(f.result(), tus)
    objs = {}
    for h, tus, f in objjobs:
        ok, obj, err = f.result()
        evaluations += 1
        classes["use-object"] = classes.get("use-object", 0) + 1
        if not ok:
            record(("C19/%s/on-g++/does-not-compile" % h.replace("parmcb/", ""), H.first_error(err)), tus)
        else:
            objs[h] = obj
    pairjobs = []
    for a, c in itertools.combinations_with_replacement(sorted(objs), 2):
        tus = [("on", True, "g++", [a]), ("on", True, "g++", [c])]
        pairjobs.append((tus, pool.submit(b.link, [objs[a], objs[c]])))
    for tus, f in pairjobs:
        ok, err = f.result()
        evaluations += 1
        classes["pair-link"] = classes.get("pair-link", 0) + 1
        nontrivial.add(H.program_text(tus))
        if not ok:
            record(("C19/%s | %s/on/does-not-link" % (tus[0][3][0].replace("parmcb/", ""), tus[1][3][0].replace("parmcb/", "")), H.first_error(err)), tus)
    offobjs = {}
    for h, f in offjobs:
        ok, obj, err = f.result()
        evaluations += 1
        classes["plain-object-config-off"] = classes.get("plain-object-config-off", 0) + 1
        if not ok:
            record(("C19/%s/off-g++/does-not-compile" % h.replace("parmcb/", ""), H.first_error(err)), [("off", False, "g++", [h])])
        else:
            offobjs[h] = obj
    offpairs = []
    for a, c in itertools.combinations_with_replacement(sorted(offobjs), 2):
        tus = [("off", False, "g++", [a]), ("off", False, "g++", [c])]
        offpairs.append((tus, pool.submit(b.link, [offobjs[a], offobjs[c]])))
    for tus, f in offpairs:
        ok, err = f.result()
        evaluations += 1
        classes["pair-link-config-off"] = classes.get("pair-link-config-off", 0) + 1
        nontrivial.add(H.program_text(tus))
        if not ok:
            record(("C19/%s | %s/off/does-not-link" % (tus[0][3][0].replace("parmcb/", ""), tus[1][3][0].replace("parmcb/", "")), H.first_error(err)), tus)
    logobjs = {}
    for h, f in logjobs:
        ok, obj, err = f.result()
        evaluations += 1
        classes["use-object-config-logging"] = classes.get("use-object-config-logging", 0) + 1
        if not ok:
            record(("C19/%s/log-g++/does-not-compile" % h.replace("parmcb/", ""), H.first_error(err)), [("log", True, "g++", [h])])
        else:
            logobjs[h] = obj
    logpairs = []
    for a, c in itertools.combinations_with_replacement(sorted(logobjs), 2):
        tus = [("log", True, "g++", [a]), ("log", True, "g++", [c])]
        logpairs.append((tus, pool.submit(b.link, [logobjs[a], logobjs[c]])))
    for tus, f in logpairs:
        ok, err = f.result()
        evaluations += 1
        classes["pair-link-config-logging"] = classes.get("pair-link-config-logging", 0) + 1
        nontrivial.add(H.program_text(tus))
        if not ok:
            record(("C19/%s | %s/log/does-not-link" % (tus[0][3][0].replace("parmcb/", ""), tus[1][3][0].replace("parmcb/", "")), H.first_error(err)), tus)
    for tus, f in intjobs:
        evaluations += 1
        classes["instantiation-int-weights"] = classes.get("instantiation-int-weights", 0) + 1
        nontrivial.add(H.program_text(tus))
        record(f.result(), tus)
    for tus, f in samejobs:
        evaluations += 1
        classes["two-headers-one-tu"] = classes.get("two-headers-one-tu", 0) + 1
        nontrivial.add(H.program_text(tus))
        record(f.result(), tus)
    # class 3: generated multi-header translation units (subset x order), linked against each other and a generated single-header partner
    nprog = 6 if tier == "quick" else 60
    hdr = st.sampled_from(hs)
    tu = st.lists(hdr, min_size=2, max_size=3, unique=True)
    prog = st.tuples(tu, tu, hdr)
    drawn = []

    @hseed(sd)
    @settings(max_examples=nprog * 3 + 5, database=None, deadline=None, derandomize=False, phases=[Phase.generate],
              suppress_health_check=list(HealthCheck))
    @given(prog)
    def draw(p):
        if p not in drawn:
            drawn.append(p)
    draw()
    drawn = drawn[1:nprog + 1] if len(drawn) > nprog else drawn   # the first Hypothesis example is always the minimal one
    gjobs = []
    for t1, t2, h3 in drawn:
        tus = [("on", True, "g++", list(t1)), ("on", True, "g++", list(t2)), ("on", True, "g++", [h3])]
        gjobs.append((tus, pool.submit(H.check_program, b, tus, True)))
    for tus, f in gjobs:
        evaluations += 1
        classes["generated-multi-header-program"] = classes.get("generated-multi-header-program", 0) + 1
        nontrivial.add(H.program_text(tus))
        if len(samples) < 4:
            samples.append([" ".join(t[3]) for t in tus])
        record(f.result(), tus)
    pool.shutdown()
    # committed replays
    n_replayed = 0
    for rp in committed_replays(pid):
        n_replayed += 1
        tus = H.parse_program(open(rp).read())
        record(H.check_program(b, tus, True), tus)
    samples = [["singleton: %s (config on+off)" % hs[0]], ["pair: %s | %s" % (hs[0], hs[-1])]] + samples
    violations = []
    os.makedirs(NEWDIR, exist_ok=True)
    for key, (msg, tus) in sorted(failures.items()):
        if any(key_matches(key, f["key"]) for f in findings):
            continue
        text = H.program_text(tus)
        path = os.path.join(NEWDIR, "C19-%s.case" % hashlib.sha1(text.encode()).hexdigest()[:16])
        with open(path, "w") as f:
            f.write("# key %s\n# %s\n%s" % (key, msg.replace("\n", " "), text))
        violations.append((key, msg, path))
    for f in findings:
        print("KNOWN-FINDING: property=%s %s" % (pid, f["what"]))
    coverage = dict(evaluations=evaluations, distinct_nontrivial=len(nontrivial), exhaustive=True,
                    rule="Programs = sets of translation units, a TU = ordered list of parmcb headers placed first. Enumerated exhaustively: every one of the "
                         "%d public headers alone (-fsyntax-only) with TBB/MPI configured on and off%s; one object per header including a canonical "
                         "instantiation snippet, and ALL %d unordered pairs (incl. a header with itself) linked together. Generated with Hypothesis from "
                         "VERIF_SEED: %d programs of three TUs with 2-3 headers each in generated order, compiled with snippets and linked. Oracles: compiler "
                         "and linker exit status. Non-trivial = every program (singletons and >=2-TU programs sharing headers are exactly the classes the "
                         "property names); distinct by program text. Also enumerated: one plain object per header in the configuration WITHOUT TBB/MPI "
                         "and all their pairs linked; two headers in one TU in both orders with both snippets (%s). 'exhaustive' refers to the "
                         "singleton and pair classes." % (
                             len(hs), "" if tier == "quick" else " with g++ and clang++", len(pairjobs), nprog,
                             "every header together with each umbrella header" if tier == "quick" else "all ordered pairs"),
                    samples=samples, classes=classes, compiles=b.compiles, links=b.links, headers=len(hs), committed_replays=n_replayed,
                    violations_found=[dict(key=k, message=m, replay=p) for k, m, p in violations])
    write_evidence(pid, tier, sd, "exploration", coverage,
                   ["instantiation snippets cover the documented entry points of each header, not every template",
                    "configuration 'off' = PARMCB_HAVE_TBB/PARMCB_HAVE_MPI undefined (system headers still installed); 'log' = all on plus PARMCB_LOGGING"],
                   time.time() - t0, len(violations))
    for k, m, p in violations:
        print("VIOLATION property=%s replay=%s" % (pid, p))
        log("  key=%s  %s" % (k, m))
    return 1 if violations else 0


def replay_c19(pid, path):
    import headers as H
    workdir = os.path.join(BUILD, "c19-" + tree_hash(["c19"]))
    b = H.Builder(REPO, workdir, gen_config)
    tus = H.parse_program(open(path).read())
    res = H.check_program(b, tus, link=len(tus) > 1 or tus[0][1])
    if res:
        print("VIOLATION property=%s replay=%s" % (pid, path))
        log("  key=%s %s" % res)
        return 1
    print("replay passed")
    return 0


prop("C19", runner=run_c19, custom_replay=replay_c19, engine="headers.py")


# ----------------------------------------------------------------------------- C11 / C20 demo clause (Hypothesis -> executables)
def demo_env():
    import demos as D
    bins = D.build_demos(REPO, BUILD, gen_config, tree_hash(["demos"]))
    wd = os.path.join(BUILD, "demo-run-%d" % os.getpid())
    return D, D.Env(bins, wd), wd


def demo_violation_file(pid, D, v):
    os.makedirs(NEWDIR, exist_ok=True)
    text = D.case_text(pid, v.case)
    path = os.path.join(NEWDIR, "%s-%s.case" % (pid, hashlib.sha1(text.encode()).hexdigest()[:16]))
    with open(path, "w") as f:
        f.write("# key %s\n# %s\n%s" % (v.key, v.msg.replace("\n", " ")[:400], text))
    return path


def confirm_demo(pid, D, env, v):
    """the shrunk case must fail 3 times in a row outside Hypothesis"""
    for i in range(3):
        r = D.replay_case(pid, env, v.case)
        if r is None:
            return False
    return True


def run_c11(pid, tier):
    t0 = time.time()
    sd = seed_value()
    D, env, wd = demo_env()
    findings = open_findings(pid)
    n = 120 if tier == "quick" else 1200
    violations = []
    notes = []
    # committed replays first
    n_replayed = 0
    for rp in committed_replays(pid):
        n_replayed += 1
        case = D.parse_case(open(rp).read())
        v = D.replay_case(pid, env, case)
        if v is not None and not any(key_matches(v.key, f["key"]) for f in findings) and confirm_demo(pid, D, env, v):
            violations.append((v.key, v.msg, rp))
    stats, v = D.drive(D.make_c11, env, n, sd)
    if v is not None:
        if any(key_matches(v.key, f["key"]) for f in findings):
            notes.append("known finding hit: " + v.key)
        elif confirm_demo(pid, D, env, v):
            violations.append((v.key, v.msg, demo_violation_file(pid, D, v)))
        else:
            notes.append("non-reproducible failure %s: %s" % (v.key, v.msg[:200]))
    for f in findings:
        print("KNOWN-FINDING: property=%s %s" % (pid, f["what"]))
    coverage = dict(evaluations=stats["evaluations"], distinct_nontrivial=len(stats["nontrivial"]), process_launches=env.launches,
                    rule="Hypothesis examples: a small simple graph (n<=9, integer weights) written as a DIMACS file with or without a trailing newline, "
                         "either valid or spoiled by >=1 of {self-loop, repeated vertex pair, weight <= 0}; run through mcb-dimacs (2-3 generated option sets "
                         "over --signed/--fvstrees/isotrees x --parallel x --cores x --verbose x --printcycles), approx-mcb-dimacs (--k 2..5), "
                         "collection-stats-dimacs and, for 2/3 of the examples, mcb-dimacs-mpi under mpiexec with 1..4 processes. Oracles: spoiled -> non-zero "
                         "exit, diagnostic on stderr, no 'Using'/'MCB weight' line, termination within %ds (all ranks); valid -> exit 0 and the printed "
                         "weight equals an independent brute-force optimum computed in Python (approximate demo: within [opt,(2k-1)opt]), identical for all "
                         "option sets. Non-trivial = spoiled file under MPI with P>=2, or valid file with cycle-space dimension >= 2; distinct by file+options." % D.WATCHDOG,
                    samples=stats["samples"] or [dict(note="no sample recorded")], classes=stats["classes"], committed_replays=n_replayed, notes=notes,
                    violations_found=[dict(key=k, message=m, replay=p) for k, m, p in violations])
    write_evidence(pid, tier, sd, "exploration", coverage,
                   ["demos are compiled from /repo/src with the repository's flags plus -DPARMCB_VERIF (asserts enabled)",
                    "the hang verdict is a %ds watchdog on runs that normally take milliseconds; replayed 3x before it is reported" % D.WATCHDOG],
                   time.time() - t0, len(violations))
    shutil.rmtree(wd, ignore_errors=True)
    for k, m, p in violations:
        print("VIOLATION property=%s replay=%s" % (pid, p))
        log("  key=%s  %s" % (k, m))
    return 1 if violations else 0


def replay_demo(pid, path):
    D, env, wd = demo_env()
    v = D.replay_case(pid, env, D.parse_case(open(path).read()))
    shutil.rmtree(wd, ignore_errors=True)
    if v is not None:
        print("VIOLATION property=%s replay=%s" % (pid, path))
        log("  key=%s %s" % (v.key, v.msg))
        return 1
    print("replay passed")
    return 0


prop("C11", runner=run_c11, custom_replay=replay_demo, engine="demos.py")


def c20_demo_clause(pid, tier, findings):
    """post hook of C20: the demo clause.  Returns (evaluations, nontrivial hashes, classes, samples, violations, notes)."""
    D, env, wd = demo_env()
    n = 25 if tier == "quick" else 300
    stats, v = D.drive(D.make_c20, env, n, seed_value())
    violations, notes = [], []
    if v is not None:
        if any(key_matches(v.key, f["key"]) for f in findings):
            notes.append("known finding hit: " + v.key)
        elif confirm_demo(pid, D, env, v):
            violations.append((v.key, v.msg, demo_violation_file(pid, D, v)))
        else:
            notes.append("non-reproducible demo failure %s" % v.key)
    shutil.rmtree(wd, ignore_errors=True)
    classes = {"demo-" + k: c for k, c in stats["classes"].items()}
    classes["demo-process-launches"] = env.launches
    return stats["evaluations"], stats["nontrivial"], classes, [dict(demo_clause=s) for s in stats["samples"][:3]], violations, notes


def replay_c20(pid, path):
    txt = open(path).read()
    if "x opts " in txt:
        return replay_demo(pid, path)
    r = replay_all(pid, PROPS[pid]["quick"], path, workdir=BUILD, timeout=600)
    if r["failed"]:
        print("VIOLATION property=%s replay=%s" % (pid, path))
        log("  key=%s %s" % (r["key"], r["msg"]))
        return 1
    print("replay passed")
    return 0


prop("C20", harness="h_conc", custom_replay=replay_c20,
     quick=dict(shards=8, cases=400, post=c20_demo_clause),
     thorough=dict(shards=16, cases=5000, post=c20_demo_clause),
     rule="Library clause (rapidcheck, real libtbb): generated call histories set(n1), 0-2 library calls, set(n2), ... with n in 1..64 (beyond the "
          "hardware threads, repeated, decreasing then increasing); after every set tbb::global_control::active_value(max_allowed_parallelism) must "
          "equal n, and during and after each following mcb_sva_*_tbb call it must still equal the last set value (observed from inside the call through "
          "a weight-map wrapper, on whichever thread evaluates it). Demo clause (Hypothesis): mcb-dimacs / approx-mcb-dimacs with generated option "
          "sets; the PARMCB_VERIF hook line printed right before the algorithm call must show --cores n whenever --parallel=true, whatever the other "
          "flags. Non-trivial = history that changes the value and makes a library call observe it / demo run with --parallel=true and 1<=cores!=hardware threads.",
     assumptions=["the harness holds no other global_control object", "hook lines are printed only in PARMCB_VERIF builds"])


# ----------------------------------------------------------------------------- C07 (sanitizer monitor over the other generators)
C07_SUBRUNS = [
    # harness, property of that harness, env, shards(quick, thorough), cases(quick, thorough)
    ("h_exact", "C07E", {"VERIF_MAXN": "14"}, (6, 16), (2000, 20000)),
    ("h_approx", "C07A", {"VERIF_MAXN": "14"}, (4, 12), (2000, 15000)),
    ("h_exact", "C07E", {"VERIF_MAXN": "100", "VERIF_MAXM": "220"}, (2, 8), (30, 400)),   # components with more than 64 vertices
    ("h_approx", "C07A", {"VERIF_MAXN": "90", "VERIF_MAXM": "200"}, (1, 4), (30, 400)),
    ("h_comp", "C12", {"VERIF_MAXN": "12"}, (1, 4), (1500, 8000)),
    ("h_comp", "C12", {"VERIF_MAXN": "110", "VERIF_MAXM": "240"}, (1, 4), (60, 600)),
    ("h_comp", "C14", {"VERIF_MAXN": "100", "VERIF_MAXM": "200"}, (1, 2), (20, 300)),
    ("h_comp", "C13", {"VERIF_MAXN": "24"}, (1, 4), (3000, 20000)),
    ("h_comp", "C14", {"VERIF_MAXN": "12"}, (1, 4), (1000, 6000)),
    ("h_comp", "C16", {"VERIF_MAXN": "24"}, (1, 4), (3000, 20000)),
    ("h_alg", "C17", {}, (1, 2), (3000, 40000)),
    ("h_alg", "C18", {}, (1, 2), (3000, 40000)),
    ("h_dimacs", "C10", {}, (1, 4), (4000, 40000)),
]
VALGRIND = ["valgrind", "--error-exitcode=88", "--exit-on-first-error=yes", "--quiet", "--leak-check=no", "--num-callers=12"]
C07_VG_SUBRUNS = [
    # harness, property, env, shards(quick, thorough), cases(quick, thorough)
    ("h_exact_vg", "C07E", {"VERIF_MAXN": "10"}, (2, 6), (120, 600)),
    ("h_approx_vg", "C07A", {"VERIF_MAXN": "10"}, (1, 4), (120, 600)),
    ("h_comp_vg", "C14", {"VERIF_MAXN": "10"}, (1, 2), (120, 600)),
    ("h_comp_vg", "C13", {"VERIF_MAXN": "20"}, (0, 1), (0, 1000)),
    ("h_comp_vg", "C16", {"VERIF_MAXN": "20"}, (0, 1), (0, 1000)),
    ("h_dimacs_vg", "C10", {}, (1, 2), (400, 4000)),
]
C07_KEEP = re.compile(r"(asan-|ubsan|leak|assert|crash|terminate|foreign-edge|hang|signal|valgrind)")


def run_c07(pid, tier):
    t0 = time.time()
    sd = seed_value()
    ti = 0 if tier == "quick" else 1
    findings = open_findings(pid)
    workdir = os.path.join(BUILD, "run-%s-%d" % (pid, os.getpid()))
    shutil.rmtree(workdir, ignore_errors=True)
    os.makedirs(workdir)
    bins = {}
    hn = sorted(set(x[0] for x in C07_SUBRUNS) | set(x[0] for x in C07_VG_SUBRUNS if x[3][ti] > 0))
    with ThreadPoolExecutor(max_workers=len(hn)) as ex:
        for h, b in zip(hn, ex.map(build_harness, hn)):
            bins[h] = b
    results = []
    with ThreadPoolExecutor(max_workers=NCPU) as ex:
        futs = []
        idx = 0
        for h, sub, env, shards, cases in C07_SUBRUNS:
            e = dict(env)
            e["VERIF_LEAKCHECK"] = "25"
            for i in range(shards[ti]):
                futs.append((h, sub, e, ex.submit(run_shard, bins[h], sub, sd * 1000 + 700 + idx, cases[ti], e, [], workdir, idx, 3000)))
                idx += 1
        vfuts = []
        for h, sub, env, shards, cases in C07_VG_SUBRUNS:
            e = dict(env)
            e["VERIF_TRACE_CURRENT"] = "1"
            for i in range(shards[ti]):
                vfuts.append((h, sub, e, ex.submit(run_shard, bins[h], sub, sd * 1000 + 800 + idx, cases[ti], e, [], workdir, idx, 3000, 100, VALGRIND)))
                idx += 1
        for h, sub, e, f in futs:
            r = f.result()
            r["binp"], r["sub"], r["env"], r["launcher"] = bins[h], sub, e, None
            results.append(r)
        for h, sub, e, f in vfuts:
            r = f.result()
            r["binp"], r["sub"], r["env"], r["launcher"] = bins[h], sub, e, VALGRIND
            results.append(r)
    ev, hashes, classes, excluded, samples = merge_stats(results)
    violations, notes = [], []
    ignored = 0
    os.makedirs(NEWDIR, exist_ok=True)
    for r in results:
        st = r["stats"] or {}
        cand = []
        if st.get("failures"):
            for f in st["failures"]:
                cand.append((f["case"], f["key"], f["message"], False))
        elif r["rc"] != 0 or r["timed_out"]:
            if st.get("death_case"):
                cand.append((st["death_case"], "hang" if r["timed_out"] else crash_class(r["out"]), crash_summary(r["out"]), True))
            elif r["rc"] == 2:
                raise RuntimeError("harness machinery error:\n" + r["out"][-2000:])
            else:
                raise RuntimeError("shard died without a case record:\n" + r["out"][-2000:])
        for text, key, msg, hard in cand:
            clause = key.split("/")[-1]
            if not C07_KEEP.search(clause):
                ignored += 1   # a semantic failure of another property: reported by that property's own check
                notes.append("semantic failure seen (belongs to %s): %s" % (r["sub"], key))
                continue
            fk = full_key(pid, key, text)
            if any(key_matches(fk, f["key"]) for f in findings):
                continue
            if any(v[0] == fk for v in violations):
                continue
            if hard and key != "hang":
                try:
                    text = minimise_crash_case(r["binp"], pid, text, r["env"], workdir, key, launcher=r.get("launcher"))
                except Exception as exn:
                    notes.append("minimisation failed: %s" % exn)
            path = os.path.join(NEWDIR, "%s-%s.case" % (pid, hashlib.sha1(text.encode()).hexdigest()[:16]))
            with open(path, "w") as f:
                f.write("# key %s\n# %s\n" % (fk, msg.replace("\n", " ")[:400]))
                f.write(text)
            ok, k2, m2 = confirm_and_report(r["binp"], pid, path, r["env"], launcher=r.get("launcher"), timeout=(600 if key == "hang" else 120))
            if ok and not any(v[0] == fk for v in violations):
                violations.append((fk, m2 or msg, path))
            elif not ok:
                notes.append("non-reproducible %s" % fk)
                if not any(v[2] == path for v in violations):
                    os.remove(path)
    # committed replays
    n_replayed = 0
    for rp in committed_replays(pid):
        n_replayed += 1
        cp = case_field(open(rp).read(), "property")
        for h, sub, env, shards, cases in C07_SUBRUNS:
            if sub == cp:
                rr = replay_once(bins[h], sub, rp, env, workdir=workdir)
                if rr["failed"]:
                    k = rr["key"] if rr["key"] != "crash" else crash_class(rr["out"])
                    if C07_KEEP.search(k.split("/")[-1]):
                        violations.append((full_key(pid, k, open(rp).read()), rr["msg"], rp))
    for f in findings:
        print("KNOWN-FINDING: property=%s %s" % (pid, f["what"]))
    coverage = dict(evaluations=ev, distinct_nontrivial=len(hashes),
                    rule="Sanitizer monitor over generated inputs: the generators of the exact algorithms (all six entry points incl. the TBB ones on real "
                         "libtbb with 1/2/8 workers), the approximate algorithms (six entry points), shortest-path trees, greedy_fvs, candidate collections, "
                         "ForestIndex, SpVecGF2, fp/primes/SpVecFP and the DIMACS reader are re-run in binaries built with -fsanitize=address,undefined "
                         "(-fno-sanitize-recover, detect_stack_use_after_return, library asserts enabled) and __lsan_do_recoverable_leak_check() after every "
                         "25 cases so that a leak is attributed to a window of cases. Oracle: no ASan/UBSan/LSan report, no failed assert, no crash, and no "
                         "returned edge descriptor that is not an edge of the caller's graph. A second phase runs uninstrumented builds of the exact, "
                         "approximate, collection and DIMACS generators under valgrind memcheck (--exit-on-first-error) for uninitialised-value and "
                         "invalid-access errors. Non-trivial = the sub-generators' own non-trivial classes "
                         "(empty graph / single vertex / forest / disconnected for the algorithms; spanner kept a cycle and dropped an edge; ...), distinct by case text.",
                    samples=samples, classes=classes, subruns=[dict(harness=h, generator=sub) for h, sub, _, _, _ in C07_SUBRUNS],
                    semantic_failures_ignored=ignored, committed_replays=n_replayed, notes=notes[:20],
                    violations_found=[dict(key=k, message=m, replay=p) for k, m, p in violations])
    write_evidence(pid, tier, sd, "exploration", coverage,
                   ["uninitialised reads are only visible to the valgrind-memcheck phase (uninstrumented builds, few hundred cases per generator; no MSan-instrumented libstdc++ in this image)",
                    "the MPI entry points are exercised by C04 under UBSan only"], time.time() - t0, len(violations))
    shutil.rmtree(workdir, ignore_errors=True)
    for k, m, p in violations:
        print("VIOLATION property=%s replay=%s" % (pid, p))
        log("  key=%s  %s" % (k, m))
    return 1 if violations else 0


def replay_c07(pid, path):
    cp = case_field(open(path).read(), "property")
    for h, sub, env, shards, cases in C07_SUBRUNS:
        if sub == cp:
            rr = replay_once(build_harness(h), sub, path, env, workdir=BUILD, timeout=600)
            if rr["failed"]:
                print("VIOLATION property=%s replay=%s" % (pid, path))
                log("  key=%s %s" % (rr["key"], rr["msg"]))
                return 1
            print("replay passed")
            return 0
    log("no sub-generator for property %r in %s" % (cp, path))
    return 2


prop("C07", runner=run_c07, custom_replay=replay_c07, engine="sanitizer monitor over h_exact/h_approx/h_comp/h_alg/h_dimacs")


def replay_cmd(pid, path):
    P = PROPS[pid]
    if "custom_replay" in P:
        return P["custom_replay"](pid, path)
    conf = P["quick"]
    r = replay_all(pid, conf, path, workdir=BUILD, timeout=600)
    if r["failed"]:
        k = r["key"] if r["key"] != "crash" else crash_class(r["out"])
        print("VIOLATION property=%s replay=%s" % (pid, path))
        log("  key=%s %s" % (k, r["msg"]))
        return 1
    print("replay passed")
    return 0


def setup():
    os.makedirs(BUILD, exist_ok=True)
    os.makedirs(EVID, exist_ok=True)
    names = set(p["harness"] for p in PROPS.values() if p.get("harness"))
    for p in PROPS.values():
        for tier in ("quick", "thorough"):
            fzc = (p.get(tier) or {}).get("fuzz")
            if fzc:
                names.add(fzc["harness"])
    names = sorted(names)
    errs = []
    with ThreadPoolExecutor(max_workers=min(8, NCPU)) as ex:
        futs = {n: ex.submit(build_harness, n) for n in names}
        for n, f in futs.items():
            try:
                f.result()
            except BuildError as e:
                errs.append(str(e))
    for e in errs:
        log(e)
    return 2 if errs else 0


def main():
    ap = argparse.ArgumentParser()
    ap.add_argument("pid", nargs="?")
    ap.add_argument("--tier", default=os.environ.get("VERIF_TIER", "quick"))
    ap.add_argument("--replay")
    ap.add_argument("--setup", action="store_true")
    a = ap.parse_args()
    os.makedirs(BUILD, exist_ok=True)
    # scratch directories of runs that were killed: remove when older than 3 hours
    now = time.time()
    for pat in ("run-*", "demo-run-*"):
        for d in glob.glob(os.path.join(BUILD, pat)):
            try:
                if now - os.path.getmtime(d) > 3 * 3600:
                    shutil.rmtree(d, ignore_errors=True)
            except OSError:
                pass
    if a.setup:
        sys.exit(setup())
    if a.pid not in PROPS:
        log("unknown property", a.pid)
        sys.exit(2)
    if a.tier not in ("quick", "thorough"):
        a.tier = "quick"
    try:
        if a.replay:
            sys.exit(replay_cmd(a.pid, a.replay))
        runner = PROPS[a.pid].get("runner", run_rc_property)
        sys.exit(runner(a.pid, a.tier))
    except BuildError as e:
        log(str(e))
        sys.exit(2)


if __name__ == "__main__":
    main()

// C20 (library clause): call histories set(n1), lib-call, set(n2), lib-call ... on real libtbb.
#include <atomic>
#include <boost/property_map/property_map.hpp>
#include <tbb/global_control.h>

// (declared before the library headers: they call boost::get(...) qualified, which only sees earlier declarations)
// weight map wrapper that observes the allowed parallelism from inside the library call (on whatever thread evaluates it)
namespace boost {
template <class Inner, class Edge>
struct verif_observing_map {
    typedef Edge key_type;
    typedef double value_type;
    typedef double reference;
    typedef boost::readable_property_map_tag category;
    Inner inner;
    std::atomic<long> *reads;
    std::atomic<long> *bad;
    std::size_t expect;
};
template <class Inner, class Edge>
inline double get(const verif_observing_map<Inner, Edge> &m, const Edge &e) {
    m.reads->fetch_add(1, std::memory_order_relaxed);
    if (tbb::global_control::active_value(tbb::global_control::max_allowed_parallelism) != m.expect) m.bad->fetch_add(1, std::memory_order_relaxed);
    return get(m.inner, e);
}
}


#include <parmcb/parmcb.hpp>

#include "runner.hpp"
#include "lib.hpp"

using namespace vf;

static const char *TBB3[] = {"mcb_sva_signed_tbb", "mcb_sva_fvs_trees_tbb", "mcb_sva_iso_trees_tbb"};

static Case gen_c20() {
    Case c;
    c.entry = "set_global_tbb_concurrency";
    GenOpts o;
    o.maxN = 10;
    o.allow_trivial = false;
    c.g = gen_graph_raw(o, WDom::Exact);
    int len = pick(1, 8);
    for (int i = 0; i < len; i++) {
        int n;
        int t = pick(0, 9);
        if (t < 4) n = pick(1, 4); else if (t < 7) n = pick(5, 16); else if (t < 9) n = pick(17, 64); else n = 1;
        c.extra.push_back("op set " + std::to_string(n));
        int calls = pick(0, 2);
        for (int k = 0; k < calls; k++) c.extra.push_back(std::string("op call ") + TBB3[pick(0, 2)]);
    }
    return c;
}

static void min_ops(Case &c, const std::function<bool(const Case &)> &still) {
    for (int i = (int) c.extra.size() - 1; i >= 0; i--) {
        Case d = c;
        d.extra.erase(d.extra.begin() + i);
        if (still(d)) c = d;
    }
}

static Verdict check_c20(const Case &c) {
    typedef BG<double> B;
    Stats &S = stats();
    std::string base = "C20/set_global_tbb_concurrency/history/";
    const std::size_t hw_default = tbb::global_control::active_value(tbb::global_control::max_allowed_parallelism);
    (void) hw_default;
    B bg(c.g);
    std::size_t current = 0;   // 0 = never set in this history
    bool changed = false, during_call = false;
    long prev = -1;
    int sets = 0, calls = 0;
    for (auto &x : c.extra) {
        if (x.compare(0, 3, "op ") != 0) continue;
        std::istringstream is(x.substr(3));
        std::string op;
        is >> op;
        if (op == "set") {
            std::size_t n;
            is >> n;
            parmcb::set_global_tbb_concurrency(n);
            sets++;
            std::size_t got = tbb::global_control::active_value(tbb::global_control::max_allowed_parallelism);
            if (prev >= 0 && (long) n != prev) changed = true;
            prev = (long) n;
            current = n;
            if (got != n) { S.note_case(c, changed); return Verdict::fail(base + "not-in-effect-after-set", "after set_global_tbb_concurrency(" + std::to_string(n) + ") the allowed parallelism is " + std::to_string(got)); }
        } else if (op == "call") {
            std::string entry;
            is >> entry;
            if (current == 0) continue;
            calls++;
            std::atomic<long> reads(0), bad(0);
            boost::verif_observing_map<B::WeightMap, B::Edge> wm{bg.wmap(), &reads, &bad, current};
            std::list<std::list<B::Edge>> cycles;
            try {
                if (entry == "mcb_sva_signed_tbb") parmcb::mcb_sva_signed_tbb(bg.g, wm, std::back_inserter(cycles));
                else if (entry == "mcb_sva_fvs_trees_tbb") parmcb::mcb_sva_fvs_trees_tbb(bg.g, wm, std::back_inserter(cycles));
                else parmcb::mcb_sva_iso_trees_tbb(bg.g, wm, std::back_inserter(cycles));
            } catch (const std::exception &e) {
                S.note_case(c, changed);
                return Verdict::fail(base + "exception", e.what());
            }
            if (reads.load() > 0) during_call = true;
            if (bad.load() > 0) { S.note_case(c, changed); return Verdict::fail(base + "not-in-effect-during-call", "inside " + entry + " the allowed parallelism differed from the last set value " + std::to_string(current) + " on " + std::to_string(bad.load()) + " observations"); }
            std::size_t got = tbb::global_control::active_value(tbb::global_control::max_allowed_parallelism);
            if (got != current) { S.note_case(c, changed); return Verdict::fail(base + "not-in-effect-after-call", "after " + entry + " the allowed parallelism is " + std::to_string(got) + ", last set " + std::to_string(current)); }
        }
    }
    S.note_case(c, changed && during_call);
    S.cls("sets", sets);
    S.cls("library-calls", calls);
    if (changed) S.cls("history-changes-the-value");
    return Verdict::pass();
}

int main(int argc, char **argv) {
    std::map<std::string, Prop> props;
    props["C20"] = Prop{gen_c20, check_c20, false, min_ops};
    return run_main(argc, argv, props);
}

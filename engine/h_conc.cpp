// C20 (library clause): call histories set(n1), lib-call, set(n2), lib-call ... on real libtbb.
#include <atomic>
#include <boost/property_map/property_map.hpp>
#include <tbb/global_control.h>

// (declared before the library headers: they call boost::get(...) qualified, which only sees earlier declarations)
// weight map wrapper that observes the allowed parallelism from inside the library call (on whatever thread evaluates it)
namespace boost {
template <class Inner, class Edge>
struct verif_observing_map {
    typedef Edge key_type;
    typedef double value_type;
    typedef double reference;
    typedef boost::readable_property_map_tag category;
    Inner inner;
    std::atomic<long> *reads;
    std::atomic<long> *bad;
    std::size_t expect;
};
template <class Inner, class Edge>
inline double get(const verif_observing_map<Inner, Edge> &m, const Edge &e) {
    m.reads->fetch_add(1, std::memory_order_relaxed);
    if (tbb::global_control::active_value(tbb::global_control::max_allowed_parallelism) != m.expect) m.bad->fetch_add(1, std::memory_order_relaxed);
    return get(m.inner, e);
}
}


#include <parmcb/parmcb.hpp>

#include "runner.hpp"
#include "lib.hpp"

using namespace vf;

// defined in h_conc_tu2.cpp: the same library function called from a second translation unit of the program
void verif_set_concurrency_from_other_tu(std::size_t n);

static const char *TBB3[] = {"mcb_sva_signed_tbb", "mcb_sva_fvs_trees_tbb", "mcb_sva_iso_trees_tbb"};

static Case gen_c20() {
    Case c;
    c.entry = "set_global_tbb_concurrency";
    GenOpts o;
    o.maxN = 10;
    o.allow_trivial = false;
    c.g = gen_graph_raw(o, WDom::Exact);
    int len = pick(1, 8);
    for (int i = 0; i < len; i++) {
        int n;
        int t = pick(0, 9);
        if (t < 4) n = pick(1, 4); else if (t < 7) n = pick(5, 16); else if (t < 9) n = pick(17, 64); else n = 1;
        c.extra.push_back(std::string(coin(30) ? "op set2 " : "op set ") + std::to_string(n));   // set2 = called from the second translation unit
        int calls = pick(0, 2);
        for (int k = 0; k < calls; k++) c.extra.push_back(std::string("op call ") + TBB3[pick(0, 2)]);
    }
    return c;
}

static void min_ops(Case &c, const std::function<bool(const Case &)> &still) {
    for (int i = (int) c.extra.size() - 1; i >= 0; i--) {
        Case d = c;
        d.extra.erase(d.extra.begin() + i);
        if (still(d)) c = d;
    }
}

struct Out20 { bool ok = true; std::string key, msg; bool changed = false, during_call = false; int sets = 0, calls = 0; };

// runs in a fresh child process: the library keeps the control object in a function-local static, so a history must start
// from process start to be a pure function of the case
static Out20 body_c20(const Case &c) {
    typedef BG<double> B;
    Out20 o;
    std::string base = "C20/set_global_tbb_concurrency/history/";
    auto fail = [&](const std::string &k, const std::string &m) { o.ok = false; o.key = base + k; o.msg = m; return o; };
    B bg(c.g);
    std::size_t current = 0;   // 0 = never set in this history
    long prev = -1;
    for (auto &x : c.extra) {
        if (x.compare(0, 3, "op ") != 0) continue;
        std::istringstream is(x.substr(3));
        std::string op;
        is >> op;
        if (op == "set" || op == "set2") {
            std::size_t n;
            is >> n;
            if (op == "set2") verif_set_concurrency_from_other_tu(n); else parmcb::set_global_tbb_concurrency(n);
            o.sets++;
            std::size_t got = tbb::global_control::active_value(tbb::global_control::max_allowed_parallelism);
            if (prev >= 0 && (long) n != prev) o.changed = true;
            prev = (long) n;
            current = n;
            if (got != n) return fail("not-in-effect-after-set", "after set_global_tbb_concurrency(" + std::to_string(n) + ") the allowed parallelism is " + std::to_string(got));
        } else if (op == "call") {
            std::string entry;
            is >> entry;
            if (current == 0) continue;
            o.calls++;
            std::atomic<long> reads(0), bad(0);
            boost::verif_observing_map<B::WeightMap, B::Edge> wm{bg.wmap(), &reads, &bad, current};
            std::list<std::list<B::Edge>> cycles;
            try {
                if (entry == "mcb_sva_signed_tbb") parmcb::mcb_sva_signed_tbb(bg.g, wm, std::back_inserter(cycles));
                else if (entry == "mcb_sva_fvs_trees_tbb") parmcb::mcb_sva_fvs_trees_tbb(bg.g, wm, std::back_inserter(cycles));
                else parmcb::mcb_sva_iso_trees_tbb(bg.g, wm, std::back_inserter(cycles));
            } catch (const std::exception &e) {
                return fail("exception", e.what());
            }
            if (reads.load() > 0) o.during_call = true;
            if (bad.load() > 0) return fail("not-in-effect-during-call", "inside " + entry + " the allowed parallelism differed from the last set value " + std::to_string(current) + " on " + std::to_string(bad.load()) + " observations");
            std::size_t got = tbb::global_control::active_value(tbb::global_control::max_allowed_parallelism);
            if (got != current) return fail("not-in-effect-after-call", "after " + entry + " the allowed parallelism is " + std::to_string(got) + ", last set " + std::to_string(current));
        }
    }
    return o;
}

#include <sys/wait.h>
static Verdict check_c20(const Case &c) {
    Stats &S = stats();
    int fd[2];
    if (pipe(fd) != 0) { fprintf(stderr, "pipe failed\n"); _exit(2); }
    fflush(nullptr);
    pid_t pid = fork();
    if (pid < 0) { fprintf(stderr, "fork failed\n"); _exit(2); }
    if (pid == 0) {
        close(fd[0]);
        Out20 o = body_c20(c);
        std::ostringstream ss;
        ss << (o.ok ? 1 : 0) << "\n" << o.changed << " " << o.during_call << " " << o.sets << " " << o.calls << "\n" << o.key << "\n" << o.msg << "\n";
        std::string t = ss.str();
        ssize_t w = write(fd[1], t.data(), t.size());
        (void) w;
        close(fd[1]);
        _exit(0);   // no atexit handlers / leak check in the child
    }
    close(fd[1]);
    std::string buf;
    char tmp[4096];
    ssize_t r;
    while ((r = read(fd[0], tmp, sizeof tmp)) > 0) buf.append(tmp, (size_t) r);
    close(fd[0]);
    int status = 0;
    waitpid(pid, &status, 0);
    Out20 o;
    std::istringstream is(buf);
    int okflag = -1;
    is >> okflag >> o.changed >> o.during_call >> o.sets >> o.calls;
    std::string rest;
    std::getline(is, rest);
    std::getline(is, o.key);
    std::getline(is, o.msg);
    bool child_ok = WIFEXITED(status) && WEXITSTATUS(status) == 0 && okflag >= 0;
    S.note_case(c, o.changed && o.during_call);
    S.cls("sets", o.sets);
    S.cls("library-calls", o.calls);
    if (o.changed) S.cls("history-changes-the-value");
    if (!child_ok) return Verdict::fail("C20/set_global_tbb_concurrency/history/child-crashed", "the child process evaluating the history died (status " + std::to_string(status) + ")");
    if (okflag == 0) return Verdict::fail(o.key, o.msg);
    return Verdict::pass();
}

int main(int argc, char **argv) {
    std::map<std::string, Prop> props;
    props["C20"] = Prop{gen_c20, check_c20, false, min_ops};
    return run_main(argc, argv, props);
}

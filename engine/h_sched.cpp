// C03: the six TBB entry points on the schedule-controlled mock TBB (engine/mocktbb is first on the include path).
//  tape mode  : ASan+UBSan, every scheduling decision comes from the case's tape; full result contract.
//  thread mode: -DMOCKTBB_THREADS -fsanitize=thread, each leaf/run on its own std::thread; ThreadSanitizer is the race oracle.
#include <parmcb/parmcb.hpp>
#ifndef MOCKTBB
#error "h_sched must be compiled against engine/mocktbb"
#endif

#include "runner.hpp"
#include "lib.hpp"

using namespace vf;

static int g_maxM = 1000000;
static int g_maxN = 12;
static const char *TBB6[] = {"mcb_sva_signed_tbb", "mcb_sva_fvs_trees_tbb", "mcb_sva_iso_trees_tbb",
                             "approx_mcb_sva_signed_tbb", "approx_mcb_sva_fvs_trees_tbb", "approx_mcb_sva_iso_trees_tbb"};

struct RunOut {
    bool threw = false;
    std::string what;
    std::vector<std::vector<int>> cycles;
    bool foreign = false;
    std::string foreign_why;
    double returned = 0;
};

template <class W>
static RunOut run_t(const Case &c) {
    RunOut r;
    const GraphSpec &s = c.g;
    BG<W> bg(s);
    typedef typename BG<W>::Edge Edge;
    std::list<std::list<Edge>> cycles;
    auto wm = bg.wmap();
    std::size_t k = (std::size_t) c.k;
    mocktbb::sched().reset(c.tape);
#ifdef MOCKTBB_THREADS
    mocktbb::sched().max_leaves = 6;
#endif
    try {
        W ret;
        const std::string &e = c.entry;
        if (e == "mcb_sva_signed_tbb") ret = parmcb::mcb_sva_signed_tbb(bg.g, wm, std::back_inserter(cycles));
        else if (e == "mcb_sva_fvs_trees_tbb") ret = parmcb::mcb_sva_fvs_trees_tbb(bg.g, wm, std::back_inserter(cycles));
        else if (e == "mcb_sva_iso_trees_tbb") ret = parmcb::mcb_sva_iso_trees_tbb(bg.g, wm, std::back_inserter(cycles));
        else if (e == "approx_mcb_sva_signed_tbb") ret = parmcb::approx_mcb_sva_signed_tbb(bg.g, wm, k, std::back_inserter(cycles));
        else if (e == "approx_mcb_sva_fvs_trees_tbb") ret = parmcb::approx_mcb_sva_fvs_trees_tbb(bg.g, wm, k, std::back_inserter(cycles));
        else if (e == "approx_mcb_sva_iso_trees_tbb") ret = parmcb::approx_mcb_sva_iso_trees_tbb(bg.g, wm, k, std::back_inserter(cycles));
        else { r.threw = true; r.what = "unknown entry " + e; return r; }
        r.returned = (double) ret;
    } catch (const std::exception &ex) {
        r.threw = true;
        r.what = ex.what();
        return r;
    } catch (...) {
        r.threw = true;
        r.what = "non-std exception";
        return r;
    }
    if (!bg.to_indices(cycles, s, r.cycles, r.foreign_why)) r.foreign = true;
    return r;
}

static Case gen_c03() {
    Case c;
    c.entry = TBB6[pick(0, 5)];
    c.wtype = coin(30) ? "int" : "double";
    GenOpts o;
    o.maxN = g_maxN;
    o.maxM = g_maxM;
    c.g = gen_graph_raw(o, c.wtype == "int" ? WDom::ExactInt : WDom::Exact);
    c.k = pick(1, 4);
    if (c.entry.compare(0, 6, "approx") != 0) c.k = 1;
    c.tape = gen_tape(64);
    if (c.tape.empty() && coin(80)) c.tape = {1u, (unsigned) pick(0, 65535), (unsigned) pick(0, 65535), 1u, (unsigned) pick(0, 65535)};
    return c;
}

static Verdict check_c03(const Case &c) {
    if (!in_exact_domain(c.g)) { stats().note_case(c, false); stats().cls("skipped-outside-exact-domain"); return Verdict::pass(); }
    Stats &S = stats();
    bool approx = c.entry.compare(0, 6, "approx") == 0;
#ifdef MOCKTBB_THREADS
    const char *mode = "threads";
#else
    const char *mode = "tape";
#endif
    std::string base = "C03/" + c.entry + "/" + mode + "-exact-" + c.wtype + "/";
    RunOut r = (c.wtype == "int") ? run_t<int>(c) : run_t<double>(c);
    mocktbb::Sched &M = mocktbb::sched();
    bool nontriv = M.reduces_multi_run >= 1 || M.pushback_interleavings >= 1;
    S.note_case(c, nontriv);
    S.cls(c.entry);
    S.cls("mock-leaves", M.leaves);
    S.cls("mock-runs", M.runs);
    S.cls("mock-joins", M.joins);
    S.cls("mock-reduces-with-several-runs", M.reduces_multi_run);
    S.cls("mock-parallel_for-with-several-leaves", M.fors_multi_leaf);
    S.cls("mock-pushback-interleavings", M.pushback_interleavings);
    S.cls("mock-reordered-regions", M.reordered_regions);
    if (M.reduces_multi_run >= 1) S.cls("case-with-split-reduce");
    if (M.pushback_interleavings >= 1) S.cls("case-with-interleaved-push_back");
    if (r.threw) return Verdict::fail(base + "exception", r.what);
    if (r.foreign) return Verdict::fail(base + "foreign-edge", r.foreign_why);
    std::string msg;
    std::string d = basis_defect(c.g, r.cycles, msg);
    if (!d.empty()) return Verdict::fail(base + d, msg);
    auto w = exact_weights(c.g);
    i128 sum = cycles_weight(r.cycles, w), ret;
    if (!to_exact(r.returned, ret) || ret != sum)
        return Verdict::fail(base + "returned-not-sum", "returned " + std::to_string(r.returned) + " but emitted cycles weigh " + i128_str(sum));
    RefMCB ref = ref_mcb(c.g);
    if (!approx || c.k == 1) {
        if (sum != ref.total) return Verdict::fail(base + "not-minimum", "emitted weight " + i128_str(sum) + " optimum " + i128_str(ref.total));
    } else {
        if (sum < ref.total) return Verdict::fail(base + "below-optimum", "weight below optimum");
        if (sum > (2 * (i128) c.k - 1) * ref.total) return Verdict::fail(base + "bound-exceeded", "weight " + i128_str(sum) + " > (2k-1)*opt, opt=" + i128_str(ref.total));
    }
    return Verdict::pass();
}

int main(int argc, char **argv) {
    if (getenv("VERIF_MAXN")) g_maxN = atoi(getenv("VERIF_MAXN"));
    if (getenv("VERIF_MAXM")) g_maxM = atoi(getenv("VERIF_MAXM"));
    std::map<std::string, Prop> props;
    props["C03"] = Prop{gen_c03, check_c03};
    return run_main(argc, argv, props);
}

// C10 oracle shared by the rapidcheck harness and the libFuzzer target.
// The oracle is an independent reference parser of the DIMACS text following the property statement.
#pragma once
#include <parmcb/config.hpp>
#include <cstring>
#include <cstdio>
#include <system_error>
#include <list>
#include <parmcb/util.hpp>

#include "spec.hpp"

namespace vf {

inline std::string esc(const std::string &s) {
    std::string o;
    for (unsigned char c : s) {
        if (c == '\\') o += "\\\\";
        else if (c == '\n') o += "\\n";
        else if (c == '\t') o += "\\t";
        else if (c < 0x20 || c >= 0x7f) { char b[8]; snprintf(b, sizeof b, "\\x%02x", c); o += b; }
        else o += (char) c;
    }
    return o;
}
inline std::string unesc(const std::string &s) {
    std::string o;
    for (size_t i = 0; i < s.size(); i++) {
        if (s[i] != '\\' || i + 1 >= s.size()) { o += s[i]; continue; }
        char n = s[++i];
        if (n == 'n') o += '\n';
        else if (n == 't') o += '\t';
        else if (n == '\\') o += '\\';
        else if (n == 'x' && i + 2 < s.size()) { o += (char) strtol(s.substr(i + 1, 2).c_str(), nullptr, 16); i += 2; }
        else o += n;
    }
    return o;
}

struct RefDimacs {
    bool in_domain = true;
    std::string why;
    long n = 0;
    bool undeclared = false;             // some edge names a vertex outside 1..n
    std::vector<std::array<long, 2>> edges;  // 0-based
    std::vector<double> w;
    bool trailing_newline = true;
    bool omitted_weight = false, comment_between_edges = false;
    int edge_lines = 0;
};

inline std::vector<std::string> split_ws(const std::string &l) {
    std::vector<std::string> t;
    size_t i = 0;
    while (i < l.size()) {
        while (i < l.size() && (l[i] == ' ' || l[i] == '\t')) i++;
        size_t j = i;
        while (j < l.size() && l[j] != ' ' && l[j] != '\t') j++;
        if (j > i) t.push_back(l.substr(i, j - i));
        i = j;
    }
    return t;
}
inline bool is_int_token(const std::string &t) {
    if (t.empty() || t.size() > 9) return false;
    for (char c : t) if (c < '0' || c > '9') return false;
    return true;
}
inline bool is_weight_token(const std::string &t) {
    if (t.empty() || t.size() > 30) return false;
    char *end = nullptr;
    strtod(t.c_str(), &end);
    if (end != t.c_str() + t.size()) return false;
    // only plain decimal notation with optional sign / exponent (no hex floats, inf, nan)
    for (char c : t) if (!((c >= '0' && c <= '9') || c == '.' || c == '-' || c == '+' || c == 'e' || c == 'E')) return false;
    return true;
}

// reference parser + domain check (lines < 1024 bytes, no blank lines, no CR / NUL, one problem line before any edge)
inline RefDimacs ref_parse(const std::string &text) {
    RefDimacs r;
    auto out = [&](const std::string &w) { r.in_domain = false; r.why = w; return r; };
    if (text.find('\0') != std::string::npos || text.find('\r') != std::string::npos) return out("NUL/CR");
    std::vector<std::string> lines;
    size_t p = 0;
    while (p < text.size()) {
        size_t q = text.find('\n', p);
        if (q == std::string::npos) { lines.push_back(text.substr(p)); r.trailing_newline = false; break; }
        lines.push_back(text.substr(p, q - p));
        p = q + 1;
    }
    bool have_p = false, seen_edge = false, comment_after_edge = false;
    for (auto &l : lines) {
        if (l.empty()) return out("blank line");
        if (l.size() > 1022) return out("line too long");   // with its newline the line must fit fgets' 1023 characters
        char c = l[0];
        if (c == 'c' || c == '#') { if (seen_edge) comment_after_edge = true; continue; }
        if (c == 'p') {
            if (have_p) return out("two problem lines");
            auto t = split_ws(l);
            if (t.size() != 4 || t[0] != "p" || !is_int_token(t[2]) || !is_int_token(t[3])) return out("bad problem line");
            r.n = atol(t[2].c_str());
            if (r.n > 100000) return out("n too large");
            have_p = true;
            continue;
        }
        if (c == 'e' || c == 'a') {
            if (!have_p) return out("edge before problem line");
            auto t = split_ws(l);
            if (t.size() < 3 || t.size() > 4 || t[0].size() != 1 || !is_int_token(t[1]) || !is_int_token(t[2])) return out("bad edge line");
            double w = 1;
            if (t.size() == 4) { if (!is_weight_token(t[3])) return out("bad weight token"); w = strtod(t[3].c_str(), nullptr); }
            else r.omitted_weight = true;
            long u = atol(t[1].c_str()), v = atol(t[2].c_str());
            r.edge_lines++;
            if (comment_after_edge) r.comment_between_edges = true;
            seen_edge = true;
            if (u < 1 || u > r.n || v < 1 || v > r.n) { r.undeclared = true; break; }  // reader must throw here
            r.edges.push_back({u - 1, v - 1});
            r.w.push_back(w);
            continue;
        }
        return out("unknown line type");
    }
    if (!have_p) return out("no problem line");
    return r;
}

struct DimacsVerdict { bool ok = true; bool in_domain = true; std::string key, msg; RefDimacs ref; };

inline DimacsVerdict check_dimacs_text(const std::string &text) {
    typedef boost::adjacency_list<boost::vecS, boost::vecS, boost::undirectedS, boost::no_property,
                                  boost::property<boost::edge_weight_t, double>> graph_t;
    DimacsVerdict v;
    v.ref = ref_parse(text);
    const RefDimacs &r = v.ref;
    if (!r.in_domain) { v.in_domain = false; return v; }
    std::string cls = r.trailing_newline ? "trailing-newline" : "no-trailing-newline";
    std::string base = "C10/read_dimacs_from_file/" + cls + "/";
    auto fail = [&](const std::string &k, const std::string &m) { v.ok = false; v.key = base + k; v.msg = m; return v; };
    graph_t g;
    FILE *fp = fmemopen((void *) (text.empty() ? "" : text.data()), text.size(), "r");
    if (text.empty()) { if (fp) fclose(fp); fp = fopen("/dev/null", "r"); }
    if (!fp) { v.in_domain = false; return v; }
    bool threw = false;
    std::string what;
    try {
        parmcb::read_dimacs_from_file(fp, g);
    } catch (const std::exception &e) {
        threw = true;
        what = e.what();
    } catch (...) {
        threw = true;
        what = "non-std exception";
    }
    fclose(fp);
    if (r.undeclared) {
        if (!threw) return fail("undeclared-vertex-accepted", "an edge names a vertex outside 1.." + std::to_string(r.n) + " but no error was raised");
        return v;
    }
    if (threw) return fail("spurious-exception", what);
    if ((long) boost::num_vertices(g) != r.n) return fail("vertex-count", "graph has " + std::to_string(boost::num_vertices(g)) + " vertices, file declares " + std::to_string(r.n));
    if (boost::num_edges(g) != r.edges.size()) return fail("edge-count", "graph has " + std::to_string(boost::num_edges(g)) + " edges, file has " + std::to_string(r.edges.size()) + " edge lines");
    auto wm = boost::get(boost::edge_weight, g);
    size_t i = 0;
    boost::graph_traits<graph_t>::edge_iterator ei, ee;
    for (boost::tie(ei, ee) = boost::edges(g); ei != ee; ++ei, ++i) {
        long a = (long) boost::source(*ei, g), b = (long) boost::target(*ei, g);
        if (!((a == r.edges[i][0] && b == r.edges[i][1]) || (a == r.edges[i][1] && b == r.edges[i][0])))
            return fail("endpoints", "edge #" + std::to_string(i) + " joins " + std::to_string(a + 1) + "-" + std::to_string(b + 1) + ", file says " + std::to_string(r.edges[i][0] + 1) + "-" + std::to_string(r.edges[i][1] + 1));
        if (!(wm[*ei] == r.w[i])) {
            char b2[128];
            snprintf(b2, sizeof b2, "edge #%zu has weight %.17g, file says %.17g", i, (double) wm[*ei], r.w[i]);
            return fail("weight", b2);
        }
    }
    // validators
    bool loops = false, nonpos = false, multi = false;
    std::set<std::pair<long, long>> pairs;
    for (size_t k = 0; k < r.edges.size(); k++) {
        if (r.edges[k][0] == r.edges[k][1]) loops = true;
        if (r.w[k] <= 0) nonpos = true;
        auto pr = std::minmax(r.edges[k][0], r.edges[k][1]);
        if (!pairs.insert(pr).second) multi = true;
    }
    if (parmcb::has_loops(g) != loops) return fail("has_loops", std::string("has_loops says ") + (loops ? "false" : "true"));
    if (parmcb::has_non_positive_weights(g, wm) != nonpos) return fail("has_non_positive_weights", std::string("has_non_positive_weights says ") + (nonpos ? "false" : "true"));
    if (!loops && parmcb::has_multiple_edges(g) != multi) return fail("has_multiple_edges", std::string("has_multiple_edges says ") + (multi ? "false" : "true"));
    return v;
}

} // namespace vf

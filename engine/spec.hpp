// Case description, text (de)serialisation, statistics.  No parmcb, no rapidcheck.
#pragma once
#include <algorithm>
#include <array>
#include <cinttypes>
#include <cmath>
#include <cstdint>
#include <cstdio>
#include <cstdlib>
#include <cstring>
#include <fstream>
#include <map>
#include <set>
#include <sstream>
#include <string>
#include <vector>
#include <unistd.h>
#include <fcntl.h>
#include <signal.h>

namespace vf {

typedef __int128 i128;

// ---------------------------------------------------------------- graph spec
struct GraphSpec {
    int n = 0;
    std::vector<std::array<int, 2>> edges;  // insertion order, 0-based
    std::vector<double> w;                  // one weight per edge (int graphs: integer valued)
    int m() const { return (int) edges.size(); }
};

// ---------------------------------------------------------------- case
struct Case {
    std::string property;
    std::string entry;            // entry point / sub-check name
    std::string wtype = "double"; // double | int
    GraphSpec g;
    long k = 1;
    int ranks = 1;
    int workers = 0;
    std::vector<unsigned> tape;     // schedule tape
    std::vector<unsigned> layout;   // heap layout tape
    std::vector<std::string> extra; // free-form lines "key value..." (ops, transform, text ...)

    std::string text() const {
        std::ostringstream o;
        o << "property " << property << "\n";
        o << "entry " << entry << "\n";
        o << "wtype " << wtype << "\n";
        o << "n " << g.n << "\n";
        char buf[128];
        for (int i = 0; i < g.m(); i++) {
            snprintf(buf, sizeof buf, "e %d %d %a", g.edges[i][0], g.edges[i][1], g.w[i]);
            o << buf << "\n";
        }
        o << "k " << k << "\n";
        o << "ranks " << ranks << "\n";
        o << "workers " << workers << "\n";
        if (!tape.empty()) {
            o << "tape";
            for (auto t : tape) o << " " << t;
            o << "\n";
        }
        if (!layout.empty()) {
            o << "layout";
            for (auto t : layout) o << " " << t;
            o << "\n";
        }
        for (auto &x : extra) o << "x " << x << "\n";
        return o.str();
    }

    // human readable one-line summary used for samples
    std::string brief() const {
        std::ostringstream o;
        o << entry << " " << wtype << " n=" << g.n << " m=" << g.m();
        if (g.m() && g.m() <= 40) {
            o << " E=";
            for (int i = 0; i < g.m(); i++) {
                o << (i ? "," : "") << g.edges[i][0] << "-" << g.edges[i][1] << ":" << g.w[i];
            }
        }
        o << " k=" << k;
        if (ranks != 1) o << " ranks=" << ranks;
        if (workers) o << " workers=" << workers;
        if (!tape.empty()) {
            o << " tape=";
            for (size_t i = 0; i < tape.size() && i < 16; i++) o << (i ? "," : "") << tape[i];
            if (tape.size() > 16) o << ",..(" << tape.size() << ")";
        }
        for (auto &x : extra) {
            o << " [" << (x.size() > 300 ? x.substr(0, 300) + "..." : x) << "]";
        }
        return o.str();
    }

    static bool parse(const std::string &txt, Case &c, std::string &err) {
        c = Case();
        std::istringstream in(txt);
        std::string line;
        while (std::getline(in, line)) {
            if (line.empty() || line[0] == '#') continue;
            std::istringstream ls(line);
            std::string key;
            ls >> key;
            if (key == "property") ls >> c.property;
            else if (key == "entry") ls >> c.entry;
            else if (key == "wtype") ls >> c.wtype;
            else if (key == "n") ls >> c.g.n;
            else if (key == "e") {
                int u, v;
                std::string ws;
                ls >> u >> v >> ws;
                c.g.edges.push_back({u, v});
                c.g.w.push_back(strtod(ws.c_str(), nullptr));
            } else if (key == "k") ls >> c.k;
            else if (key == "ranks") ls >> c.ranks;
            else if (key == "workers") ls >> c.workers;
            else if (key == "tape") { unsigned t; while (ls >> t) c.tape.push_back(t); }
            else if (key == "layout") { unsigned t; while (ls >> t) c.layout.push_back(t); }
            else if (key == "x") {
                std::string rest;
                std::getline(ls, rest);
                if (!rest.empty() && rest[0] == ' ') rest.erase(0, 1);
                c.extra.push_back(rest);
            } else { err = "unknown key " + key; return false; }
        }
        return true;
    }
    static bool load(const std::string &path, Case &c, std::string &err) {
        std::ifstream f(path);
        if (!f) { err = "cannot open " + path; return false; }
        std::stringstream ss;
        ss << f.rdbuf();
        return parse(ss.str(), c, err);
    }
    const std::string *xget(const std::string &key) const {
        for (auto &x : extra) if (x.compare(0, key.size() + 1, key + " ") == 0 || x == key) return &x;
        return nullptr;
    }
    std::string xval(const std::string &key) const {
        auto p = xget(key);
        if (!p) return "";
        return p->size() > key.size() ? p->substr(key.size() + 1) : "";
    }
};

inline uint64_t fnv1a(const std::string &s) {
    uint64_t h = 1469598103934665603ULL;
    for (unsigned char c : s) { h ^= c; h *= 1099511628211ULL; }
    return h;
}

inline std::string json_escape(const std::string &s) {
    std::string o;
    for (unsigned char c : s) {
        switch (c) {
            case '"': o += "\\\""; break;
            case '\\': o += "\\\\"; break;
            case '\n': o += "\\n"; break;
            case '\t': o += "\\t"; break;
            case '\r': o += "\\r"; break;
            default:
                if (c < 0x20 || c >= 0x7f) { char b[8]; snprintf(b, sizeof b, "\\u%04x", c); o += b; }
                else o += (char) c;
        }
    }
    return o;
}

// ---------------------------------------------------------------- verdict
struct Verdict {
    bool ok = true;
    std::string key;      // Cxx/entry/input-class/clause
    std::string message;
    static Verdict pass() { return Verdict(); }
    static Verdict fail(const std::string &key, const std::string &msg) {
        Verdict v; v.ok = false; v.key = key; v.message = msg; return v;
    }
};

// ---------------------------------------------------------------- stats
struct Failure { std::string key, message, casetext; };

struct Stats {
    long evaluations = 0;
    std::set<uint64_t> nontrivial;
    std::map<std::string, long> classes;
    std::map<std::string, long> excluded;
    std::vector<std::string> samples;       // brief() of nontrivial cases
    std::vector<Failure> failures;
    std::string out_path;
    std::string current_case;  // text of the case being evaluated (for death dumps)
    std::string property;
    bool counting = true;

    void cls(const std::string &name, long by = 1) { if (counting) classes[name] += by; }
    void note_case(const Case &c, bool nontriv) {
        if (!counting) return;
        evaluations++;
        if (nontriv) {
            uint64_t h = fnv1a(c.text());
            if (nontrivial.insert(h).second) {
                size_t k = nontrivial.size();
                // keep first 3 and then a thinning sample, at most 8
                if (samples.size() < 3) samples.push_back(c.brief());
                else if (samples.size() < 8 && (k % (50 * (samples.size() - 1))) == 0) samples.push_back(c.brief());
            }
        }
    }
    std::string json(const char *death = nullptr) const {
        std::ostringstream o;
        o << "{\"property\":\"" << property << "\",\"evaluations\":" << evaluations;
        o << ",\"nontrivial_hashes\":[";
        bool first = true;
        for (auto h : nontrivial) { o << (first ? "" : ",") << "\"" << std::hex << h << std::dec << "\""; first = false; }
        o << "],\"classes\":{";
        first = true;
        for (auto &p : classes) { o << (first ? "" : ",") << "\"" << json_escape(p.first) << "\":" << p.second; first = false; }
        o << "},\"excluded\":{";
        first = true;
        for (auto &p : excluded) { o << (first ? "" : ",") << "\"" << json_escape(p.first) << "\":" << p.second; first = false; }
        o << "},\"samples\":[";
        first = true;
        for (auto &s : samples) { o << (first ? "" : ",") << "\"" << json_escape(s) << "\""; first = false; }
        o << "],\"failures\":[";
        first = true;
        for (auto &f : failures) {
            o << (first ? "" : ",") << "{\"key\":\"" << json_escape(f.key) << "\",\"message\":\"" << json_escape(f.message)
              << "\",\"case\":\"" << json_escape(f.casetext) << "\"}";
            first = false;
        }
        o << "]";
        if (death) o << ",\"death\":\"" << json_escape(death) << "\",\"death_case\":\"" << json_escape(current_case) << "\"";
        o << "}";
        return o.str();
    }
    void dump(const char *death = nullptr) const {
        if (out_path.empty()) return;
        std::string j = json(death);
        int fd = open(out_path.c_str(), O_WRONLY | O_CREAT | O_TRUNC, 0644);
        if (fd < 0) return;
        size_t off = 0;
        while (off < j.size()) {
            ssize_t r = write(fd, j.data() + off, j.size() - off);
            if (r <= 0) break;
            off += (size_t) r;
        }
        close(fd);
    }
};

inline Stats &stats() { static Stats s; return s; }

// death handling: sanitizer abort, assert (SIGABRT), SIGSEGV ...
extern "C" void __sanitizer_set_death_callback(void (*)(void)) __attribute__((weak));
inline void death_cb() {
    static bool once = false;
    if (once) return;
    once = true;
    stats().dump("sanitizer-or-abort");
}
inline void sig_handler(int sig) {
    static bool once = false;
    if (!once) {
        once = true;
        char b[64];
        snprintf(b, sizeof b, "signal-%d", sig);
        stats().dump(b);
    }
    signal(sig, SIG_DFL);
    raise(sig);
}
inline void install_death_handlers() {
    if (__sanitizer_set_death_callback) __sanitizer_set_death_callback(death_cb);
    signal(SIGABRT, sig_handler);
    signal(SIGSEGV, sig_handler);
    signal(SIGFPE, sig_handler);
    signal(SIGBUS, sig_handler);
    signal(SIGILL, sig_handler);
}

// ---------------------------------------------------------------- exclusions (known findings)
struct Excludes {
    std::vector<std::string> prefixes;
    bool match(const std::string &key) const {
        for (auto &p : prefixes) {
            if (key.compare(0, p.size(), p) == 0 && (key.size() == p.size() || key[p.size()] == '/')) return true;
        }
        return false;
    }
};
inline Excludes &excludes() { static Excludes e; return e; }

// ---------------------------------------------------------------- command line
struct Args {
    std::string property, stats_path, replay, newdir;
    long cases = 100;
    int max_size = 100;
    int rank_tag = -1;
};
inline Args parse_args(int argc, char **argv) {
    Args a;
    for (int i = 1; i < argc; i++) {
        std::string s = argv[i];
        auto next = [&]() -> std::string { return (i + 1 < argc) ? std::string(argv[++i]) : std::string(); };
        if (s == "--property") a.property = next();
        else if (s == "--stats") a.stats_path = next();
        else if (s == "--replay") a.replay = next();
        else if (s == "--newdir") a.newdir = next();
        else if (s == "--cases") a.cases = atol(next().c_str());
        else if (s == "--max-size") a.max_size = atoi(next().c_str());
        else if (s == "--exclude") {
            std::string e = next();
            size_t p = 0;
            while (p <= e.size()) {
                size_t q = e.find(',', p);
                if (q == std::string::npos) q = e.size();
                if (q > p) excludes().prefixes.push_back(e.substr(p, q - p));
                p = q + 1;
            }
        }
    }
    return a;
}

} // namespace vf

// libFuzzer target for C01/C02 (and C07): bytes -> small weighted simple graph + entry point -> same oracles as h_exact.
#define main verif_h_exact_main_unused
#include "h_exact.cpp"
#undef main
#include "fz_common.hpp"
#include <fuzzer/FuzzedDataProvider.h>

extern "C" int LLVMFuzzerTestOneInput(const uint8_t *data, size_t size) {
    static bool init = false;
    FuzzState &Z = fz();
    if (!init) { init = true; Z.property = "C02"; atexit(fz_atexit); stats().counting = false; }
    FuzzedDataProvider f(data, size);
    Case c;
    c.property = "C02";
    c.entry = ALL6[f.ConsumeIntegralInRange<int>(0, 5)];
    c.wtype = f.ConsumeBool() ? "int" : "double";
    int n = f.ConsumeIntegralInRange<int>(0, 8);
    int pal = f.ConsumeIntegralInRange<int>(0, 3);
    c.g.n = n;
    for (int u = 0; u < n; u++) for (int v = u + 1; v < n; v++) {
        uint8_t b = f.ConsumeIntegral<uint8_t>();
        if ((b & 3) == 0 && c.g.m() < 22) {     // edge present with probability 1/4 on random bytes; coverage feedback steers it
            int nib = (b >> 4) & 15;
            double w = pal == 0 ? 1 : pal == 1 ? 1 + (nib & 1) : pal == 2 ? 1 + (nib & 3) : 1 + nib;
            if (b & 4) c.g.edges.push_back({u, v}); else c.g.edges.push_back({v, u});
            c.g.w.push_back(w);
        }
    }
    c.workers = 1 + (int) f.ConsumeIntegralInRange<int>(0, 3);
    Z.pre_dump(c);
    int dim = cycle_dim(c.g);
    // C02's check includes C01's validity predicate
    g_workers = c.workers;
    Verdict v = check_c02(c);
    bool nontriv = dim >= 2 && has_weight_ties(c.g);
    Z.classes[c.entry]++;
    if (dim == 0) Z.classes["forest"]++;
    Z.note(c, nontriv);
    if (!v.ok) Z.fail(c, v.key, v.message);
    return 0;
}

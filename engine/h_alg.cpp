// C17 (SpVecGF2 model-based), C18 (fp / primes / SpVecFP against cpp_int arithmetic)
#include <cassert>
#include <cmath>
#include <stdexcept>
#include <parmcb/config.hpp>
#include <parmcb/arithmetic.hpp>
#include <parmcb/spvecgf2.hpp>
#include <parmcb/fp.hpp>
#include <parmcb/spvecfp.hpp>

#include "runner.hpp"

using namespace vf;
using boost::multiprecision::cpp_int;

static Verdict F(const std::string &key, const std::string &msg) { return Verdict::fail(key, msg); }

static void min_ops(Case &c, const std::function<bool(const Case &)> &still) {
    bool progress = true;
    int budget = 2000;
    while (progress && budget > 0) {
        progress = false;
        for (int i = (int) c.extra.size() - 1; i >= 0 && budget > 0; i--) {
            if (c.extra[i].compare(0, 3, "op ") != 0) continue;
            Case d = c;
            d.extra.erase(d.extra.begin() + i);
            budget--;
            if (still(d)) { c = d; progress = true; }
        }
    }
}

// =============================================================================== C17
static const int NREG = 4;

static std::string set_str(const std::set<std::size_t> &s) {
    std::string o;
    for (auto x : s) o += (o.empty() ? "" : ",") + std::to_string(x);
    return o.empty() ? "-" : o;
}
static std::set<std::size_t> parse_set(const std::string &t) {
    std::set<std::size_t> s;
    if (t == "-") return s;
    size_t p = 0;
    while (p < t.size()) {
        size_t q = t.find(',', p);
        if (q == std::string::npos) q = t.size();
        s.insert((std::size_t) strtoull(t.substr(p, q - p).c_str(), nullptr, 10));
        p = q + 1;
    }
    return s;
}

static Case gen_c17() {
    Case c;
    c.entry = "SpVecGF2";
    int dc = pick(0, 99);
    int d = dc < 12 ? pick(1, 3) : dc < 75 ? pick(1, 70) : dc < 90 ? pick(71, 600) : pick(601, 5000);
    static const char *uts[] = {"size_t", "size_t", "unsigned", "int", "ushort", "uchar", "uchar"};
    c.wtype = uts[pick(0, 6)];   // index type U of SpVecGF2<U>
    // the whole range of a narrow index type is a legal dimension: the largest value of U is an ordinary coordinate
    if (c.wtype == "uchar") d = coin(50) ? 256 : pick(1, 256);
    if (c.wtype == "ushort" && coin(15)) d = 65536;
    c.extra.push_back("dim " + std::to_string(d));
    int len = coin(10) ? pick(61, 300) : pick(1, 60);
    bool big_sets = coin(25);
    bool top_heavy = coin(30);   // coordinates near the top of the dimension
    auto coord = [&]() { return (std::size_t) ((top_heavy && coin(40)) ? d - 1 - pick(0, std::min(d - 1, 3)) : pick(0, d - 1)); };
    auto rset = [&]() {
        std::set<std::size_t> s;
        int shape = pick(0, 9);
        if (big_sets && shape < 3) {            // a long run / arithmetic progression (hundreds of ones)
            int step = pick(1, 3), cnt = pick(1, std::min(600, d)), lo = pick(0, d - 1);
            for (int i = 0, x = lo; i < cnt && x < d; i++, x += step) s.insert((std::size_t) x);
        } else if (shape < 5) {                 // a short run of adjacent coordinates
            int lo = (int) coord(), cnt = pick(1, 4);
            for (int i = 0; i < cnt && lo + i < d; i++) s.insert((std::size_t) (lo + i));
        } else {
            int cap = big_sets ? std::min(d, 200) : std::min(d, 12);
            int k = coin(30) ? pick(0, 2) : pick(0, cap);
            for (int i = 0; i < k; i++) s.insert(coord());
        }
        return s;
    };
    for (int i = 0; i < len; i++) {
        int t = pick(0, 99);
        int a = pick(0, NREG - 1), b = pick(0, NREG - 1), e = pick(0, NREG - 1);
        std::string op;
        if (t < 10) op = "unit " + std::to_string(a) + " " + std::to_string(coord());
        else if (t < 25) op = "set " + std::to_string(a) + " " + set_str(rset());
        else if (t < 32) op = "copy " + std::to_string(a) + " " + std::to_string(b);
        else if (t < 38) op = "move " + std::to_string(a) + " " + std::to_string(b);
        else if (t < 55) op = "add " + std::to_string(a) + " " + std::to_string(b) + " " + std::to_string(e);
        else if (t < 70) op = "addeq " + std::to_string(a) + " " + std::to_string(b);
        else if (t < 76) op = "assign " + std::to_string(a) + " " + std::to_string(b);
        else if (t < 79) op = "clear " + std::to_string(a);
        else if (t < 90) op = "dot " + std::to_string(a) + " " + std::to_string(b);
        else if (t < 96) op = "dotset " + std::to_string(a) + " " + set_str(rset());
        else op = "movector " + std::to_string(a) + " " + std::to_string(b);
        c.extra.push_back("op " + op);
    }
    return c;
}

template <class U>
static Verdict check_c17_t(const Case &c) {
    typedef parmcb::SpVecGF2<U> V;
    Stats &S = stats();
    std::string base = "C17/SpVecGF2/history/";
    int d = atoi(c.xval("dim").c_str());
    if (d <= 0) d = 1;
    std::vector<V> R(NREG);
    std::vector<std::vector<bool>> M(NREG, std::vector<bool>(d, false));
    bool overlap_add = false, product_after = false;
    int nops = 0;
    Verdict bad;
    auto check_all = [&](const std::string &after) -> bool {
        for (int i = 0; i < NREG; i++) {
            std::vector<std::size_t> got;
            for (auto it = R[i].begin(); it != R[i].end(); ++it) got.push_back((std::size_t) *it);
            std::vector<std::size_t> want;
            for (int j = 0; j < d; j++) if (M[i][j]) want.push_back(j);
            for (size_t k = 1; k < got.size(); k++) if (!(got[k - 1] < got[k])) {
                bad = F(base + "not-increasing", "register " + std::to_string(i) + " not strictly increasing after '" + after + "'");
                return false;
            }
            if (got != want) {
                bad = F(base + "content", "register " + std::to_string(i) + " differs from dense model after '" + after + "'");
                return false;
            }
            if (R[i].size() != want.size()) {
                bad = F(base + "size", "size() wrong after '" + after + "'");
                return false;
            }
        }
        return true;
    };
    for (auto &x : c.extra) {
        if (x.compare(0, 3, "op ") != 0) continue;
        std::istringstream is(x.substr(3));
        std::string op;
        is >> op;
        nops++;
        if (op == "unit") {
            int a; std::size_t j; is >> a >> j;
            if (j >= (std::size_t) d) j = d - 1;
            R[a] = V((U) j);
            M[a].assign(d, false); M[a][j] = true;
        } else if (op == "set") {
            int a; std::string t; is >> a >> t;
            auto s = parse_set(t);
            std::set<std::size_t> s2;
            for (auto v : s) if (v < (std::size_t) d) s2.insert(v);
            { std::set<U> su; for (auto v : s2) su.insert((U) v); R[a] = V(su); }
            M[a].assign(d, false);
            for (auto v : s2) M[a][v] = true;
        } else if (op == "copy") {
            int a, b; is >> a >> b;
            V t(R[b]);
            R[a] = t;
            M[a] = M[b];
        } else if (op == "movector") {
            int a, b; is >> a >> b;
            auto mb = M[b];
            V t(std::move(R[b]));
            if (a != b) { R[b].clear(); M[b].assign(d, false); }
            R[a] = t;
            M[a] = mb;
        } else if (op == "move") {
            int a, b; is >> a >> b;
            if (a == b) {
                V &ref = R[a];
                R[a] = std::move(ref);   // self move-assignment keeps the value (explicit self check in the class)
            } else {
                R[a] = std::move(R[b]);
                M[a] = M[b];
                R[b].clear();            // moved-from state is unspecified: define it
                M[b].assign(d, false);
            }
        } else if (op == "add") {
            int a, b, e; is >> a >> b >> e;
            for (int j = 0; j < d; j++) if (M[b][j] && M[e][j]) overlap_add = true;
            R[a] = R[b] + R[e];
            std::vector<bool> m(d);
            for (int j = 0; j < d; j++) m[j] = M[b][j] ^ M[e][j];
            M[a] = m;
        } else if (op == "addeq") {
            int a, b; is >> a >> b;
            for (int j = 0; j < d; j++) if (M[a][j] && M[b][j]) overlap_add = true;
            R[a] += R[b];
            std::vector<bool> m(d);
            for (int j = 0; j < d; j++) m[j] = M[a][j] ^ M[b][j];
            M[a] = m;
        } else if (op == "assign") {
            int a, b; is >> a >> b;
            V &src = R[b];
            R[a] = src;
            M[a] = M[b];
        } else if (op == "clear") {
            int a; is >> a;
            R[a].clear();
            M[a].assign(d, false);
        } else if (op == "dot") {
            int a, b; is >> a >> b;
            int want = 0;
            for (int j = 0; j < d; j++) want ^= (M[a][j] && M[b][j]);
            int got = R[a] * R[b];
            if (overlap_add) product_after = true;
            if (got != want) { S.note_case(c, false); return F(base + "dot", "R" + std::to_string(a) + "*R" + std::to_string(b) + " = " + std::to_string(got) + " expected " + std::to_string(want)); }
        } else if (op == "dotset") {
            int a; std::string t; is >> a >> t;
            auto s = parse_set(t);
            int want = 0;
            for (auto v : s) if (v < (std::size_t) d && M[a][v]) want ^= 1;
            std::set<U> su; for (auto v : s) su.insert((U) v);
            int got = R[a] * su;
            if (overlap_add) product_after = true;
            if (got != want) { S.note_case(c, false); return F(base + "dotset", "R" + std::to_string(a) + "*set = " + std::to_string(got) + " expected " + std::to_string(want)); }
        } else {
            return F(base + "bad-op", "unknown op " + op);
        }
        if (!check_all(x)) { S.note_case(c, false); return bad; }
    }
    S.note_case(c, overlap_add && product_after);
    S.cls("index-type-" + (c.wtype.empty() ? std::string("size_t") : c.wtype));
    if (d > 70) S.cls("dimension>70");
    if (overlap_add) S.cls("overlapping-add");
    if (product_after) S.cls("product-after-overlapping-add");
    S.cls("ops", nops);
    return Verdict::pass();
}

static Verdict check_c17(const Case &c) {
    if (c.wtype == "unsigned") return check_c17_t<unsigned>(c);
    if (c.wtype == "int") return check_c17_t<int>(c);
    if (c.wtype == "ushort") return check_c17_t<unsigned short>(c);
    if (c.wtype == "uchar") return check_c17_t<unsigned char>(c);
    return check_c17_t<std::size_t>(c);
}

// =============================================================================== C18
template <class T> struct TN;
template <> struct TN<int> { static const char *name() { return "int"; } static cpp_int lim_gcd() { return cpp_int(1) << 15; } static cpp_int lim_p() { return 46340; } static cpp_int maxv() { return cpp_int(2147483647); } };
template <> struct TN<long> { static const char *name() { return "long"; } static cpp_int lim_gcd() { return cpp_int(1) << 31; } static cpp_int lim_p() { return cpp_int(3037000499LL); } static cpp_int maxv() { return cpp_int(9223372036854775807LL); } };
template <> struct TN<cpp_int> { static const char *name() { return "cpp_int"; } static cpp_int lim_gcd() { return cpp_int(1) << 200; } static cpp_int lim_p() { return cpp_int(1) << 100; } static cpp_int maxv() { return cpp_int(1) << 200; } };

template <class T> static T conv(const cpp_int &v) { return v.convert_to<T>(); }
template <> cpp_int conv<cpp_int>(const cpp_int &v) { return v; }

static cpp_int mabs(const cpp_int &a) { return a < 0 ? cpp_int(-a) : a; }
static cpp_int mgcd(cpp_int a, cpp_int b) { a = mabs(a); b = mabs(b); while (b != 0) { cpp_int t = a % b; a = b; b = t; } return a; }
static cpp_int mmod(const cpp_int &a, const cpp_int &p) { cpp_int r = a % p; if (r < 0) r += p; return r; }

// random cpp_int below bound (bound>0), built from 16-bit draws
static cpp_int draw_below(const cpp_int &bound) {
    cpp_int v = 0;
    int bits = (int) msb(bound) + 1;
    for (int i = 0; i < bits; i += 16) v = (v << 16) + pick(0, 65535);
    return v % bound;
}
static cpp_int draw_mag(const cpp_int &lim) {
    // small values over-weighted
    int t = pick(0, 9);
    if (t < 3) return cpp_int(pick(0, 12));
    if (t < 5) return cpp_int(pick(0, 1000));
    cpp_int b = lim;
    if (t < 7 && lim > 65536) { int sh = pick(1, (int) msb(lim)); b = (cpp_int(1) << sh); if (b > lim) b = lim; }
    return draw_below(b);
}

static bool is_prime_ref(const cpp_int &p) {
    if (p < 2) return false;
    static const int small[] = {2, 3, 5, 7, 11, 13, 17, 19, 23, 29, 31, 37};
    for (int q : small) { if (p == q) return true; if (p % q == 0) return false; }
    // deterministic Miller-Rabin for p < 3.3e24 with the first 12 primes as bases
    cpp_int d = p - 1;
    int r = 0;
    while (d % 2 == 0) { d /= 2; r++; }
    for (int a : small) {
        cpp_int x = powm(cpp_int(a), d, p);
        if (x == 1 || x == p - 1) continue;
        bool comp = true;
        for (int i = 1; i < r; i++) { x = x * x % p; if (x == p - 1) { comp = false; break; } }
        if (comp) return false;
    }
    return true;
}

static const char *TYPES[] = {"int", "long", "cpp_int"};

static Case gen_c18() {
    Case c;
    int sub = pick(0, 9);
    std::string ty = TYPES[pick(0, 2)];
    c.wtype = ty;
    cpp_int limg = ty == "int" ? TN<int>::lim_gcd() : ty == "long" ? TN<long>::lim_gcd() : TN<cpp_int>::lim_gcd();
    cpp_int limp = ty == "int" ? TN<int>::lim_p() : ty == "long" ? TN<long>::lim_p() : TN<cpp_int>::lim_p();
    cpp_int maxv = ty == "int" ? TN<int>::maxv() : ty == "long" ? TN<long>::maxv() : TN<cpp_int>::maxv();
    if (sub < 3) {
        c.entry = "ext_gcd";
        cpp_int a, b;
        int pat = pick(0, 9);
        if (pat == 0) { a = 0; b = draw_mag(limg) + 1; }
        else if (pat == 1) { b = 0; a = draw_mag(limg) + 1; }
        else if (pat == 2) { a = draw_mag(limg) + 1; b = a; }
        else if (pat == 3) { a = draw_mag(limg / 1024 + 2) + 1; b = a * pick(1, 1000); }
        else if (pat == 4) {  // consecutive Fibonacci numbers
            cpp_int f0 = 1, f1 = 1;
            int steps = pick(0, 300);
            for (int i = 0; i < steps && f0 + f1 < limg; i++) { cpp_int t = f0 + f1; f0 = f1; f1 = t; }
            a = f1; b = f0;
            if (coin(50)) std::swap(a, b);
        } else { a = draw_mag(limg); b = draw_mag(limg); if (a == 0 && b == 0) b = 1; }
        if (a >= limg) a = limg - 1;
        if (b >= limg) b = limg - 1;
        if (a == 0 && b == 0) a = 1;
        if (coin(40)) a = -a;
        if (coin(40)) b = -b;
        c.extra.push_back("a " + a.str());
        c.extra.push_back("b " + b.str());
    } else if (sub < 5) {
        c.entry = "get_mult_inverse";
        cpp_int p = draw_mag(limp) + 2;
        if (p > limp) p = limp;
        if (coin(50)) {  // make p prime-ish by searching upward a little (keeps composite moduli too)
            for (int i = 0; i < 200 && !is_prime_ref(p); i++) p += 1;
            if (p > limp) p = 2;
        }
        cpp_int a = draw_mag(limp);
        if (coin(30)) a = -a;
        c.extra.push_back("a " + a.str());
        c.extra.push_back("p " + p.str());
    } else if (sub < 8) {
        c.entry = "is_prime";
        cpp_int p;
        int pat = pick(0, 9);
        cpp_int cost_lim = cpp_int(1) << 36;   // trial division cost bound for long / cpp_int
        if (ty == "int") cost_lim = maxv + 1;
        if (pat == 0) p = pick(2, 50);
        else if (pat == 1) { cpp_int q = pick(2, 46340); for (int i = 0; i < 100 && !is_prime_ref(q); i++) q += 1; p = q * q; }
        else if (pat == 2) { static const long carm[] = {561, 1105, 1729, 2465, 2821, 6601, 8911, 10585, 15841, 29341, 41041, 46657, 52633, 62745, 63973, 75361, 101101, 825265, 321197185}; p = carm[pick(0, 18)]; }
        else if (pat == 3) {  // the top of the range: numbers with a small factor (cost restriction only)
            p = maxv - draw_mag(cpp_int(1) << 20);
            static const int sm[] = {2, 3, 5, 7, 11, 13, 101, 997};
            int f = sm[pick(0, 7)];
            p -= p % f;
        } else if (pat == 4 && ty == "int") p = maxv - pick(0, 200000);   // whole int range incl. 2147483647
        else if (pat == 5) {  // a prime found by search
            cpp_int q = draw_below(cost_lim > maxv ? maxv : cost_lim) + 2;
            for (int i = 0; i < 400 && !is_prime_ref(q); i++) q += 1;
            p = q;
        } else p = draw_below(cost_lim > maxv ? maxv : cost_lim) + 2;
        if (p < 2) p = 2;
        if (p > maxv) p = maxv;
        c.extra.push_back("p " + p.str());
    } else {
        c.entry = "SpVecFP";
        bool top = coin(25);   // modulus in the top of the range in which (p-1)^2 is representable; few coordinates, many products
        cpp_int p = top ? limp - pick(0, 64) : (coin(30) ? cpp_int(pick(2, 7)) : draw_mag(limp) + 2);
        if (p > limp) p = limp;
        if (p < 2) p = 2;
        c.extra.push_back("p " + p.str());
        int dim = top ? pick(2, 6) : pick(1, 24);
        c.extra.push_back("dim " + std::to_string(dim));
        int len = pick(1, 40);
        // scalar bound: |a|*(p-1) representable for built-ins
        cpp_int slim = ty == "cpp_int" ? (cpp_int(1) << 120) : (maxv / p);
        for (int i = 0; i < len; i++) {
            int t = pick(0, 99), a = pick(0, 2), b = pick(0, 2), e = pick(0, 2);
            std::string op;
            auto scalar = [&]() {
                cpp_int s = coin(25) ? cpp_int(pick(0, 3)) : draw_mag(slim + 1);
                if (s > slim) s = slim;
                if (coin(40)) s = -s;
                return s.str();
            };
            if (top) t = (t < 15) ? 10 : (t < 40) ? 30 : (t < 70) ? 65 : (t < 78) ? 80 : 85;   // idx / add / mul / muleq / dot
            if (t < 25) op = "idx " + std::to_string(a) + " " + std::to_string(pick(0, dim - 1));
            else if (t < 50) op = "add " + std::to_string(a) + " " + std::to_string(b) + " " + std::to_string(e);
            else if (t < 62) op = "addeq " + std::to_string(a) + " " + std::to_string(b);
            else if (t < 75) op = "mul " + std::to_string(a) + " " + std::to_string(b) + " " + scalar();
            else if (t < 83) op = "muleq " + std::to_string(a) + " " + scalar();
            else if (t < 92) op = "dot " + std::to_string(a) + " " + std::to_string(b);
            else if (t < 95) op = "copy " + std::to_string(a) + " " + std::to_string(b);
            else if (t < 98) op = "move " + std::to_string(a) + " " + std::to_string(b);
            else op = "clear " + std::to_string(a);
            c.extra.push_back("op " + op);
        }
    }
    return c;
}

template <class T>
static Verdict check_gcd(const Case &c) {
    Stats &S = stats();
    cpp_int a0(c.xval("a")), b0(c.xval("b"));
    std::string cls = std::string(a0 < 0 ? "neg" : a0 == 0 ? "zero" : "pos") + "-" + (b0 < 0 ? "neg" : b0 == 0 ? "zero" : "pos");
    S.note_case(c, a0 <= 0 || b0 <= 0);
    S.cls(std::string("ext_gcd-") + TN<T>::name());
    S.cls("ext_gcd-signs-" + cls);
    std::string base = std::string("C18/ext_gcd/") + TN<T>::name() + "/";
    T a = conv<T>(a0), b = conv<T>(b0), x = T(7), y = T(7);
    T g;
    try {
        g = parmcb::fp<T>::ext_gcd(a, b, x, y);
    } catch (...) {
        return F(base + "exception", "ext_gcd threw");
    }
    cpp_int G(g), X(x), Y(y);
    if (G != mgcd(a0, b0)) return F(base + "gcd-value", "gcd(" + a0.str() + "," + b0.str() + ") returned " + G.str());
    if (a0 * X + b0 * Y != G) return F(base + "bezout", "a*x+b*y != g for a=" + a0.str() + " b=" + b0.str() + " x=" + X.str() + " y=" + Y.str() + " g=" + G.str());
    return Verdict::pass();
}

template <class T>
static Verdict check_inv(const Case &c) {
    Stats &S = stats();
    cpp_int a0(c.xval("a")), p0(c.xval("p"));
    bool coprime = mgcd(a0, p0) == 1;
    S.note_case(c, !coprime || a0 < 0 || p0 <= 3);
    S.cls(std::string("inverse-") + TN<T>::name());
    S.cls(coprime ? "inverse-exists" : "inverse-missing");
    std::string base = std::string("C18/get_mult_inverse/") + TN<T>::name() + "/";
    T a = conv<T>(a0), p = conv<T>(p0);
    bool threw = false;
    T x = T(0);
    try {
        x = parmcb::fp<T>::get_mult_inverse(a, p);
    } catch (std::runtime_error *e) {
        threw = true;
        delete e;
    } catch (...) {
        threw = true;
    }
    if (coprime) {
        if (threw) return F(base + "spurious-throw", "inverse of " + a0.str() + " mod " + p0.str() + " exists but the call threw");
        cpp_int X(x);
        if (mmod(a0 * X - 1, p0) != 0) return F(base + "not-inverse", a0.str() + " * " + X.str() + " != 1 mod " + p0.str());
    } else if (!threw) {
        return F(base + "no-throw", "gcd(" + a0.str() + "," + p0.str() + ") != 1 but no exception");
    }
    return Verdict::pass();
}

template <class T>
static Verdict check_prime(const Case &c) {
    Stats &S = stats();
    cpp_int p0(c.xval("p"));
    bool want = is_prime_ref(p0);
    S.note_case(c, p0 <= 3 || want);
    S.cls(std::string("is_prime-") + TN<T>::name());
    S.cls(want ? "prime" : "composite");
    if (p0 > (cpp_int(1) << 31) - 300000) S.cls("is_prime-near-type-maximum");
    std::string base = std::string("C18/is_prime/") + TN<T>::name() + "/";
    T p = conv<T>(p0);
    bool got;
    try {
        got = parmcb::primes<T>::is_prime(p);
    } catch (std::runtime_error *e) {
        std::string w = e->what();
        delete e;
        return F(base + "exception", "is_prime(" + p0.str() + ") threw: " + w);
    } catch (...) {
        return F(base + "exception", "is_prime(" + p0.str() + ") threw");
    }
    if (got != want) return F(base + "wrong-answer", "is_prime(" + p0.str() + ") = " + (got ? "true" : "false"));
    return Verdict::pass();
}

template <class T>
static Verdict check_spvecfp(const Case &c) {
    typedef parmcb::SpVecFP<T> V;
    Stats &S = stats();
    cpp_int p0(c.xval("p"));
    int dim = atoi(c.xval("dim").c_str());
    if (dim < 1) dim = 1;
    std::string base = std::string("C18/SpVecFP/") + TN<T>::name() + "/";
    T p = conv<T>(p0);
    std::vector<V> R;
    for (int i = 0; i < 3; i++) R.emplace_back(p);
    std::vector<std::vector<cpp_int>> M(3, std::vector<cpp_int>(dim, 0));
    bool neg_scalar = false;
    Verdict bad;
    auto check_all = [&](const std::string &after) -> bool {
        for (int i = 0; i < 3; i++) {
            std::vector<std::pair<std::size_t, cpp_int>> got, want;
            for (auto it = R[i].begin(); it != R[i].end(); ++it) got.push_back({boost::get<0>(*it), cpp_int(boost::get<1>(*it))});
            for (int j = 0; j < dim; j++) if (M[i][j] != 0) want.push_back({(std::size_t) j, M[i][j]});
            for (size_t k = 0; k < got.size(); k++) {
                if (k && !(got[k - 1].first < got[k].first)) { bad = F(base + "not-increasing", "indices not increasing after '" + after + "'"); return false; }
                if (got[k].second < 1 || got[k].second >= p0) { bad = F(base + "not-reduced", "entry value " + got[k].second.str() + " outside 1..p-1 after '" + after + "'"); return false; }
            }
            if (got != want) { bad = F(base + "content", "register " + std::to_string(i) + " differs from dense model after '" + after + "'"); return false; }
            if (R[i].size() != want.size()) { bad = F(base + "size", "size() wrong"); return false; }
            if (cpp_int(R[i].prime()) != p0) { bad = F(base + "prime", "prime() changed"); return false; }
        }
        return true;
    };
    int nops = 0;
    for (auto &x : c.extra) {
        if (x.compare(0, 3, "op ") != 0) continue;
        std::istringstream is(x.substr(3));
        std::string op;
        is >> op;
        nops++;
        try {
            if (op == "idx") {
                int a; std::size_t j; is >> a >> j;
                if (j >= (std::size_t) dim) j = dim - 1;
                R[a] = j;
                for (auto &v : M[a]) v = 0;
                M[a][j] = 1;
            } else if (op == "add") {
                int a, b, e; is >> a >> b >> e;
                R[a] = R[b] + R[e];
                std::vector<cpp_int> m(dim);
                for (int j = 0; j < dim; j++) m[j] = mmod(M[b][j] + M[e][j], p0);
                M[a] = m;
            } else if (op == "addeq") {
                int a, b; is >> a >> b;
                R[a] += R[b];
                std::vector<cpp_int> m(dim);
                for (int j = 0; j < dim; j++) m[j] = mmod(M[a][j] + M[b][j], p0);
                M[a] = m;
            } else if (op == "mul") {
                int a, b; std::string sc; is >> a >> b >> sc;
                cpp_int s0(sc);
                if (s0 < 0) neg_scalar = true;
                T s = conv<T>(s0);
                R[a] = R[b] * s;
                std::vector<cpp_int> m(dim);
                for (int j = 0; j < dim; j++) m[j] = mmod(M[b][j] * s0, p0);
                M[a] = m;
            } else if (op == "muleq") {
                int a; std::string sc; is >> a >> sc;
                cpp_int s0(sc);
                if (s0 < 0) neg_scalar = true;
                T s = conv<T>(s0);
                R[a] *= s;
                for (int j = 0; j < dim; j++) M[a][j] = mmod(M[a][j] * s0, p0);
            } else if (op == "dot") {
                int a, b; is >> a >> b;
                cpp_int want = 0;
                for (int j = 0; j < dim; j++) want = mmod(want + M[a][j] * M[b][j], p0);
                cpp_int got(R[a] * R[b]);
                if (got != want) { S.note_case(c, false); return F(base + "dot", "dot product " + got.str() + " expected " + want.str()); }
            } else if (op == "copy") {
                int a, b; is >> a >> b;
                V t(R[b]);
                R[a] = t;
                M[a] = M[b];
            } else if (op == "move") {
                int a, b; is >> a >> b;
                if (a != b) {
                    R[a] = std::move(R[b]);
                    M[a] = M[b];
                    R[b].clear();
                    for (auto &v : M[b]) v = 0;
                }
            } else if (op == "clear") {
                int a; is >> a;
                R[a].clear();
                for (auto &v : M[a]) v = 0;
            } else return F(base + "bad-op", op);
        } catch (...) {
            S.note_case(c, false);
            return F(base + "exception", "exception in '" + x + "'");
        }
        if (!check_all(x)) { S.note_case(c, false); return bad; }
    }
    S.note_case(c, neg_scalar || p0 <= 3);
    S.cls(std::string("SpVecFP-") + TN<T>::name());
    if (neg_scalar) S.cls("negative-scalar");
    if (p0 <= 3) S.cls("p<=3");
    S.cls("spvecfp-ops", nops);
    return Verdict::pass();
}

template <class T>
static Verdict check_c18_t(const Case &c) {
    if (c.entry == "ext_gcd") return check_gcd<T>(c);
    if (c.entry == "get_mult_inverse") return check_inv<T>(c);
    if (c.entry == "is_prime") return check_prime<T>(c);
    if (c.entry == "SpVecFP") return check_spvecfp<T>(c);
    return F("C18/bad-entry", c.entry);
}
static Verdict check_c18(const Case &c) {
    if (c.wtype == "int") return check_c18_t<int>(c);
    if (c.wtype == "long") return check_c18_t<long>(c);
    return check_c18_t<cpp_int>(c);
}

int main(int argc, char **argv) {
    std::map<std::string, Prop> props;
    props["C17"] = Prop{gen_c17, check_c17, false, min_ops};
    props["C18"] = Prop{gen_c18, check_c18, false, min_ops};
    return run_main(argc, argv, props);
}

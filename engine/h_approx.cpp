// C05 C06 C15: approximate algorithms (sequential entry points) and the intermediate spanner.
#include <parmcb/parmcb.hpp>

#include "runner.hpp"
#include "lib.hpp"
#include <boost/iterator/function_output_iterator.hpp>
#include <tbb/global_control.h>

using namespace vf;

static int g_maxM = 1000000;
static int g_maxN = 14;
static Verdict F(const std::string &key, const std::string &msg) { return Verdict::fail(key, msg); }

static const char *APPROX[] = {"approx_mcb_sva_signed", "approx_mcb_sva_fvs_trees", "approx_mcb_sva_iso_trees"};

struct ARun {
    bool threw = false;
    std::string what;
    std::vector<std::vector<int>> cycles;
    size_t emitted = 0;
    bool foreign = false;
    std::string foreign_why;
    double returned = 0;
    // spanner facts (from the guarded accessors, on a second algorithm object)
    int retained = -1, dropped = -1;
    bool spanner_has_cycle = false;
};

template <class W>
static void spanner_facts(BG<W> &bg, const GraphSpec &s, std::size_t k, ARun &r) {
    typedef typename BG<W>::graph_t G;
    typedef typename BG<W>::WeightMap WM;
    typedef typename BG<W>::Edge Edge;
    typedef std::back_insert_iterator<std::list<std::list<Edge>>> Out;
    typedef parmcb::detail::mcb_sva_signed<G, WM, Out> Exact;
    WM wm = bg.wmap();
    auto im = boost::get(boost::vertex_index, bg.g);
    parmcb::detail::BaseApproxSpannerAlgorithm<G, WM, Exact, false> algo(bg.g, wm, im, k);
    r.retained = (int) boost::num_edges(algo.verif_spanner());
    r.dropped = (int) algo.verif_non_spanner_edges().size();
    UnionFind uf(s.n);
    for (auto &p : algo.verif_edge_spanner_to_g()) {
        int i = bg.index_of(p.second, s);
        if (i >= 0 && !uf.unite(s.edges[i][0], s.edges[i][1])) r.spanner_has_cycle = true;
    }
}

template <class W, class G, class WM, class Out>
static W dispatch_approx(const std::string &entry, const G &g, const WM &wm, std::size_t k, Out out) {
    if (entry == "approx_mcb_sva_signed") return parmcb::approx_mcb_sva_signed(g, wm, k, out);
    if (entry == "approx_mcb_sva_fvs_trees") return parmcb::approx_mcb_sva_fvs_trees(g, wm, k, out);
    if (entry == "approx_mcb_sva_iso_trees") return parmcb::approx_mcb_sva_iso_trees(g, wm, k, out);
    if (entry == "approx_mcb_sva_signed_tbb") return parmcb::approx_mcb_sva_signed_tbb(g, wm, k, out);
    if (entry == "approx_mcb_sva_fvs_trees_tbb") return parmcb::approx_mcb_sva_fvs_trees_tbb(g, wm, k, out);
    if (entry == "approx_mcb_sva_iso_trees_tbb") return parmcb::approx_mcb_sva_iso_trees_tbb(g, wm, k, out);
    throw std::invalid_argument("unknown entry " + entry);
}

// 'outkind': which model of OutputIterator the caller hands in (list / vector back_inserter, positional iterator into a
// pre-sized vector, function_output_iterator): the contract is "writes one cycle per *out++", whatever the iterator is.
template <class W>
static ARun run_approx_t(const std::string &entry, const GraphSpec &s, std::size_t k, const std::string &outkind = "list") {
    ARun r;
    BG<W> bg(s);
    typedef typename BG<W>::Edge Edge;
    std::list<std::list<Edge>> cycles;
    auto wm = bg.wmap();
    try {
        W ret;
        if (outkind == "vector") {
            std::vector<std::list<Edge>> v;
            ret = dispatch_approx<W>(entry, bg.g, wm, k, std::back_inserter(v));
            cycles.assign(v.begin(), v.end());
        } else if (outkind == "positional") {
            std::vector<std::list<Edge>> v((std::size_t) std::max(0, cycle_dim(s)) + 4);
            ret = dispatch_approx<W>(entry, bg.g, wm, k, v.begin());
            std::size_t last = 0;
            for (std::size_t i = 0; i < v.size(); i++) if (!v[i].empty()) last = i + 1;
            cycles.assign(v.begin(), v.begin() + (std::ptrdiff_t) last);
        } else if (outkind == "function") {
            auto sink = [&cycles](const std::list<Edge> &c) { cycles.push_back(c); };
            ret = dispatch_approx<W>(entry, bg.g, wm, k, boost::make_function_output_iterator(sink));
        } else {
            ret = dispatch_approx<W>(entry, bg.g, wm, k, std::back_inserter(cycles));
        }
        r.returned = (double) ret;
    } catch (const std::exception &e) {
        r.threw = true;
        r.what = e.what();
    } catch (...) {
        r.threw = true;
        r.what = "non-std exception";
    }
    r.emitted = cycles.size();
    if (!r.threw) {
        // the call has returned: everything the library allocated internally is gone; descriptors must still be usable
        if (!bg.to_indices(cycles, s, r.cycles, r.foreign_why)) r.foreign = true;
        else {
            // touch the weights through the caller's map via the returned descriptors (ASan: use-after-free if dangling)
            volatile double sink = 0;
            for (auto &c : cycles) for (auto &e : c) sink = sink + (double) wm[e];
            (void) sink;
        }
        if (k >= 1) {
            try { spanner_facts<W>(bg, s, k, r); } catch (...) {}
        }
    }
    return r;
}
static ARun run_approx(const Case &c) {
    std::size_t k = (std::size_t) c.k;
    std::string ok = c.xval("out");
    if (ok.empty()) ok = "list";
    if (c.wtype == "int") return run_approx_t<int>(c.entry, c.g, k, ok);
    return run_approx_t<double>(c.entry, c.g, k, ok);
}

static long gen_k(bool allow_zero) {
    int t = pick(0, 99);
    if (allow_zero && t < 6) return 0;
    if (t < 28) return 1;
    if (t < 58) return 2;
    if (t < 76) return 3;
    if (t < 92) return pick(4, 8);
    if (t < 96) return 100;
    if (t < 99) return 1000000;
    return (long) ((1ULL << 62) + 1);  // 2k-1 wraps nowhere (size_t): huge
}

static Case gen_approx(bool allow_zero) {
    Case c;
    c.entry = APPROX[pick(0, 2)];
    c.wtype = coin(30) ? "int" : "double";
    GenOpts o;
    o.maxN = g_maxN;
    o.maxM = g_maxM;
    c.g = gen_graph_raw(o, c.wtype == "int" ? WDom::ExactInt : WDom::Exact);
    c.k = gen_k(allow_zero);
    static const char *outs[] = {"list", "list", "vector", "positional", "positional", "function"};
    std::string ok = outs[pick(0, 5)];
    if (ok != "list") c.extra.push_back("out " + ok);
    return c;
}
static Case gen_c05() { return gen_approx(false); }
static const char *APPROX6[] = {"approx_mcb_sva_signed", "approx_mcb_sva_fvs_trees", "approx_mcb_sva_iso_trees",
                                "approx_mcb_sva_signed_tbb", "approx_mcb_sva_fvs_trees_tbb", "approx_mcb_sva_iso_trees_tbb"};
static Case gen_c07a() { Case c = gen_approx(false); c.entry = APPROX6[pick(0, 5)]; return c; }
static Case gen_c06() { return gen_approx(true); }

static std::string kclass(long k) { return k == 0 ? "k0" : k == 1 ? "k1" : k == 2 ? "k2" : k == 3 ? "k3" : k <= 8 ? "k4-8" : "k-huge"; }

static Verdict check_c05(const Case &c) {
    if (!in_exact_domain(c.g)) { stats().note_case(c, false); stats().cls("skipped-outside-exact-domain"); return Verdict::pass(); }
    Stats &S = stats();
    std::string base = "C05/" + c.entry + "/exact-" + c.wtype + "/";
    ARun r = run_approx(c);
    bool nontriv = r.spanner_has_cycle && r.dropped >= 1;
    S.note_case(c, nontriv);
    S.cls(kclass(c.k));
    S.cls(c.entry);
    S.cls(std::string("wtype-") + c.wtype);
    S.cls("output-iterator-" + (c.xval("out").empty() ? std::string("list") : c.xval("out")));
    if (r.spanner_has_cycle) S.cls("spanner-has-cycle");
    if (r.dropped >= 1) S.cls("edges-dropped");
    if (cycle_dim(c.g) == 0) S.cls("forest");
    if (r.threw) return F(base + "exception", r.what);
    if (r.foreign) return F(base + "foreign-edge", r.foreign_why);
    std::string msg;
    std::string d = basis_defect(c.g, r.cycles, msg);
    if (!d.empty()) return F(base + d, msg);
    auto w = exact_weights(c.g);
    i128 sum = cycles_weight(r.cycles, w), ret;
    if (!to_exact(r.returned, ret) || ret != sum)
        return F(base + "returned-not-sum", "returned " + std::to_string(r.returned) + " but emitted cycles weigh " + i128_str(sum));
    return Verdict::pass();
}

static Verdict check_c06(const Case &c) {
    if (!in_exact_domain(c.g)) { stats().note_case(c, false); stats().cls("skipped-outside-exact-domain"); return Verdict::pass(); }
    Stats &S = stats();
    std::string base = "C06/" + c.entry + "/exact-" + c.wtype + "/";
    ARun r = run_approx(c);
    S.cls(kclass(c.k));
    S.cls(c.entry);
    if (c.k == 0) {
        S.note_case(c, cycle_dim(c.g) >= 1);
        if (!r.threw) return F(base + "k0-not-rejected", "k=0 accepted, " + std::to_string(r.emitted) + " cycles emitted");
        if (r.emitted != 0) return F(base + "k0-output-touched", "k=0 threw but " + std::to_string(r.emitted) + " cycles were emitted");
        return Verdict::pass();
    }
    if (r.threw) { S.note_case(c, false); return F(base + "exception", r.what); }
    if (r.foreign) { S.note_case(c, false); return F(base + "foreign-edge", r.foreign_why); }
    std::string msg;
    std::string d = basis_defect(c.g, r.cycles, msg);
    if (!d.empty()) { S.note_case(c, false); return F(base + d, msg); }
    RefMCB ref = ref_mcb(c.g);
    auto w = exact_weights(c.g);
    i128 sum = cycles_weight(r.cycles, w);
    bool loose = c.k >= 2 && r.dropped >= 1;
    bool strict = loose && sum > ref.total;
    S.note_case(c, loose);
    if (loose) S.cls("k>=2-with-dropped-edges");
    if (strict) S.cls("approximation-strictly-worse-than-optimum");
    if (sum < ref.total) return F(base + "below-optimum", "basis weight " + i128_str(sum) + " below optimum " + i128_str(ref.total));
    if (c.k == 1) {
        if (sum != ref.total) return F(base + "k1-not-minimum", "k=1 weight " + i128_str(sum) + " optimum " + i128_str(ref.total));
        if (cycles_sorted_weights(r.cycles, w) != ref.sorted_weights) return F(base + "k1-weight-vector", "k=1 cycle weights differ from optimum's");
    } else if (c.k <= 1000000) {
        i128 f = 2 * (i128) c.k - 1;
        if (sum > f * ref.total) return F(base + "bound-exceeded", "weight " + i128_str(sum) + " > (2k-1)*opt = " + std::to_string((long) f) + "*" + i128_str(ref.total));
    }
    return Verdict::pass();
}

// ------------------------------------------------------------------------------- C15
static Case gen_c15() {
    Case c;
    c.entry = "spanner";
    c.wtype = coin(30) ? "int" : "double";
    GenOpts o;
    o.maxN = g_maxN;
    o.maxM = g_maxM;
    o.tie_bias = 75;
    c.g = gen_graph_raw(o, c.wtype == "int" ? WDom::ExactInt : WDom::Exact);
    c.k = coin(85) ? pick(1, 4) : pick(5, 8);
    return c;
}

template <class W>
static Verdict check_c15_t(const Case &c) {
    if (!in_exact_domain(c.g)) { stats().note_case(c, false); stats().cls("skipped-outside-exact-domain"); return Verdict::pass(); }
    typedef typename BG<W>::graph_t G;
    typedef typename BG<W>::WeightMap WM;
    typedef typename BG<W>::Edge Edge;
    typedef std::back_insert_iterator<std::list<std::list<Edge>>> Out;
    typedef parmcb::detail::mcb_sva_signed<G, WM, Out> Exact;
    Stats &S = stats();
    const GraphSpec &s = c.g;
    std::string base = "C15/spanner/exact-" + c.wtype + "/";
    std::size_t k = (std::size_t) c.k;
    BG<W> bg(s);
    WM wm = bg.wmap();
    auto im = boost::get(boost::vertex_index, bg.g);
    try {
        parmcb::detail::BaseApproxSpannerAlgorithm<G, WM, Exact, false> algo(bg.g, wm, im, k);
        const G &sp = algo.verif_spanner();
        const auto &tr = algo.verif_edge_spanner_to_g();
        const auto &nonsp = algo.verif_non_spanner_edges();
        std::vector<int> state(s.m(), 0);  // 1 retained 2 dropped
        bool counted = false;
        auto count = [&](bool nt) { if (!counted) { S.note_case(c, nt); counted = true; } };
        if ((int) boost::num_vertices(sp) != s.n) { count(false); return F(base + "vertex-count", "spanner has " + std::to_string(boost::num_vertices(sp)) + " vertices"); }
        auto swm = boost::get(boost::edge_weight, sp);
        std::size_t sp_edges = 0;
        typename boost::graph_traits<G>::edge_iterator ei, ee;
        std::vector<std::vector<std::pair<int, int>>> adj(s.n);
        for (boost::tie(ei, ee) = boost::edges(sp); ei != ee; ++ei) {
            sp_edges++;
            auto it = tr.find(*ei);
            if (it == tr.end()) { count(false); return F(base + "untranslated-edge", "spanner edge without translation"); }
            int gi = bg.index_of(it->second, s);
            if (gi < 0) { count(false); return F(base + "translation-foreign", "translation is not an input edge"); }
            int a = (int) boost::source(*ei, sp), b = (int) boost::target(*ei, sp);
            if (!((a == s.edges[gi][0] && b == s.edges[gi][1]) || (a == s.edges[gi][1] && b == s.edges[gi][0])))
                { count(false); return F(base + "translation-endpoints", "spanner edge endpoints differ from its input edge"); }
            if (state[gi]) { count(false); return F(base + "translation-not-injective", "input edge " + std::to_string(gi) + " retained twice"); }
            state[gi] = 1;
            if ((double) swm[*ei] != s.w[gi])
                { count(false); return F(base + "spanner-weight", "retained edge " + std::to_string(gi) + " has spanner weight " + std::to_string((double) swm[*ei]) + " input weight " + std::to_string(s.w[gi])); }
            adj[a].push_back({b, gi});
            adj[b].push_back({a, gi});
        }
        if (tr.size() != sp_edges) { count(false); return F(base + "translation-size", "translation map size differs from spanner edge count"); }
        for (auto &e : nonsp) {
            int gi = bg.index_of(e, s);
            if (gi < 0) { count(false); return F(base + "dropped-foreign", "dropped edge is not an input edge"); }
            if (state[gi]) { count(false); return F(base + "not-a-partition", "edge " + std::to_string(gi) + " both retained and dropped / dropped twice"); }
            state[gi] = 2;
        }
        for (int i = 0; i < s.m(); i++) if (!state[i]) { count(false); return F(base + "not-a-partition", "edge " + std::to_string(i) + " neither retained nor dropped"); }
        int nd = (int) nonsp.size();
        bool has_cycle = false;
        { UnionFind uf(s.n); for (int i = 0; i < s.m(); i++) if (state[i] == 1 && !uf.unite(s.edges[i][0], s.edges[i][1])) has_cycle = true; }
        count(nd >= 1 && has_cycle && c.k >= 2);
        S.cls(kclass(c.k));
        if (nd >= 1) S.cls("edges-dropped");
        if (has_cycle) S.cls("spanner-has-cycle");
        if (has_weight_ties(s)) S.cls("weight-ties");
        // stretch certificate for each dropped edge
        for (int i = 0; i < s.m(); i++) if (state[i] == 2) {
            int u = s.edges[i][0], v = s.edges[i][1];
            std::vector<long> dist(s.n, -1);
            std::queue<int> q;
            dist[u] = 0;
            q.push(u);
            while (!q.empty()) {
                int x = q.front();
                q.pop();
                for (auto &pr : adj[x]) if (dist[pr.first] < 0 && s.w[pr.second] <= s.w[i]) { dist[pr.first] = dist[x] + 1; q.push(pr.first); }
            }
            if (dist[v] < 0 || (unsigned long) dist[v] > 2 * k - 1)
                return F(base + "stretch", "dropped edge " + std::to_string(u) + "-" + std::to_string(v) + " has no path of <= 2k-1 retained edges that are not heavier (hops=" + std::to_string(dist[v]) + ")");
        }
        // girth of retained subgraph > 2k
        long girth = -1;
        for (int r = 0; r < s.n; r++) {
            std::vector<long> dist(s.n, -1);
            std::vector<int> pe(s.n, -1);
            std::queue<int> q;
            dist[r] = 0;
            q.push(r);
            while (!q.empty()) {
                int x = q.front();
                q.pop();
                for (auto &pr : adj[x]) {
                    if (pr.second == pe[x]) continue;
                    if (dist[pr.first] < 0) { dist[pr.first] = dist[x] + 1; pe[pr.first] = pr.second; q.push(pr.first); }
                    else { long cyc = dist[x] + dist[pr.first] + 1; if (girth < 0 || cyc < girth) girth = cyc; }
                }
            }
        }
        if (girth >= 0 && (unsigned long) girth <= 2 * k) return F(base + "girth", "retained subgraph has a cycle of " + std::to_string(girth) + " <= 2k edges");
    } catch (const std::exception &e) {
        return F(base + "exception", e.what());
    }
    return Verdict::pass();
}
static Verdict check_c15(const Case &c) { return c.wtype == "int" ? check_c15_t<int>(c) : check_c15_t<double>(c); }

int main(int argc, char **argv) {
    tbb::global_control gc(tbb::global_control::max_allowed_parallelism, 3);   // the *_tbb entry points: bounded, shards run side by side
    if (getenv("VERIF_MAXN")) g_maxN = atoi(getenv("VERIF_MAXN"));
    if (getenv("VERIF_MAXM")) g_maxM = atoi(getenv("VERIF_MAXM"));
    std::map<std::string, Prop> props;
    props["C05"] = Prop{gen_c05, check_c05};
    props["C07A"] = Prop{gen_c07a, check_c05};
    props["C06"] = Prop{gen_c06, check_c06};
    props["C15"] = Prop{gen_c15, check_c15};
    return run_main(argc, argv, props);
}

// libFuzzer target for C10 (and the reader part of C07): bytes -> structured DIMACS text -> same oracle as h_dimacs.
#include "dimacs_check.hpp"
#include <fuzzer/FuzzedDataProvider.h>
#include "fz_common.hpp"

using namespace vf;

static std::string build_text(FuzzedDataProvider &f) {
    std::string text;
    int n = f.ConsumeIntegralInRange<int>(0, 12);
    int nlines = f.ConsumeIntegralInRange<int>(0, 14);
    static const char *seps[] = {" ", "  ", "\t", " \t"};
    auto sep = [&]() { return std::string(seps[f.ConsumeIntegralInRange<int>(0, 3)]); };
    std::vector<std::string> lines;
    if (f.ConsumeBool()) lines.push_back(std::string(f.ConsumeBool() ? "c" : "#") + " " + f.ConsumeRandomLengthString(20));
    lines.push_back("p" + sep() + "edge" + sep() + std::to_string(n) + sep() + std::to_string(f.ConsumeIntegralInRange<int>(0, 40)));
    for (int i = 0; i < nlines; i++) {
        int kind = f.ConsumeIntegralInRange<int>(0, 9);
        if (kind == 0) { lines.push_back(std::string(f.ConsumeBool() ? "c" : "#") + f.ConsumeRandomLengthString(30)); continue; }
        int u = f.ConsumeIntegralInRange<int>(0, n + 1), v = f.ConsumeIntegralInRange<int>(0, n + 1);
        std::string l = (kind < 7 ? "e" : "a") + sep() + std::to_string(u) + sep() + std::to_string(v);
        int wk = f.ConsumeIntegralInRange<int>(0, 5);
        char b[64];
        switch (wk) {
            case 0: break;
            case 1: snprintf(b, sizeof b, "%d", f.ConsumeIntegralInRange<int>(-5, 300)); l += sep() + b; break;
            case 2: snprintf(b, sizeof b, "%d.%d", f.ConsumeIntegralInRange<int>(0, 30), f.ConsumeIntegralInRange<int>(0, 999)); l += sep() + b; break;
            case 3: snprintf(b, sizeof b, "-%d.%d", f.ConsumeIntegralInRange<int>(0, 3), f.ConsumeIntegralInRange<int>(0, 99)); l += sep() + b; break;
            case 4: snprintf(b, sizeof b, "%de%d", f.ConsumeIntegralInRange<int>(0, 9), f.ConsumeIntegralInRange<int>(-4, 4)); l += sep() + b; break;
            default: l += sep() + f.ConsumeRandomLengthString(8); break;   // arbitrary token: domain check filters
        }
        lines.push_back(l);
    }
    for (size_t i = 0; i < lines.size(); i++) { text += lines[i]; if (i + 1 < lines.size()) text += "\n"; }
    if (f.ConsumeBool()) text += "\n";
    return text;
}

extern "C" int LLVMFuzzerTestOneInput(const uint8_t *data, size_t size) {
    static bool init = false;
    FuzzState &Z = fz();
    if (!init) { init = true; Z.property = "C10"; atexit(fz_atexit); }
    FuzzedDataProvider f(data, size);
    std::string text = build_text(f);
    Case c;
    c.property = "C10";
    c.entry = "read_dimacs_from_file";
    c.extra.push_back("text " + esc(text));
    Z.pre_dump(c);
    DimacsVerdict v = check_dimacs_text(text);
    if (!v.in_domain) { Z.execs++; Z.classes["out-of-domain"]++; return 0; }
    const RefDimacs &r = v.ref;
    Z.classes[r.trailing_newline ? "trailing-newline" : "no-trailing-newline"]++;
    if (r.undeclared) Z.classes["undeclared-vertex"]++;
    Z.note(c, r.edge_lines >= 1 && (!r.trailing_newline || r.omitted_weight || r.comment_between_edges));
    if (!v.ok) Z.fail(c, v.key, v.msg);
    return 0;
}

// Generic harness main: rapidcheck loop, capture of the minimal failing case, delta-minimisation, replay.
#pragma once
#include "spec.hpp"
#include "gen.hpp"
#include <functional>
#include <sys/stat.h>
#include <ctime>

extern "C" int __lsan_do_recoverable_leak_check() __attribute__((weak));

namespace vf {

struct Prop {
    std::function<Case()> gen;                     // draws through rapidcheck
    std::function<Verdict(const Case &)> check;    // pure function of the case (+ code under test)
    bool graph_case = true;                        // enable generic graph minimisation
    std::function<void(Case &, const std::function<bool(const Case &)> &)> custom_min;  // optional
};

inline bool remove_vertex(GraphSpec &g, int v) {
    for (auto &e : g.edges) if (e[0] == v || e[1] == v) return false;
    for (auto &e : g.edges) { if (e[0] > v) e[0]--; if (e[1] > v) e[1]--; }
    g.n--;
    return true;
}

inline void minimise_graph_case(Case &c, const std::function<bool(const Case &)> &still_fails_raw) {
    int budget = 3000;
    // minimisation only affects how small the replay file is, never the verdict: bound it in evaluations and in time
    time_t t_end = time(nullptr) + 90;
    auto still_fails = [&](const Case &d) { if (time(nullptr) > t_end) { budget = 0; return false; } return still_fails_raw(d); };
    bool progress = true;
    // chunked edge removal first (large graphs)
    for (int chunk = c.g.m() / 2; chunk >= 2 && budget > 0; chunk /= 2) {
        for (int start = 0; start < c.g.m() && budget > 0;) {
            Case d = c;
            int end = std::min(c.g.m(), start + chunk);
            d.g.edges.erase(d.g.edges.begin() + start, d.g.edges.begin() + end);
            d.g.w.erase(d.g.w.begin() + start, d.g.w.begin() + end);
            budget--;
            if (still_fails(d)) c = d; else start += chunk;
        }
    }
    // drop all isolated vertices at once
    {
        Case d = c;
        for (int v = d.g.n - 1; v >= 0; v--) remove_vertex(d.g, v);
        if (d.g.n != c.g.n) { budget--; if (still_fails(d)) c = d; }
    }
    while (progress && budget > 0) {
        progress = false;
        // drop edges
        for (int i = c.g.m() - 1; i >= 0 && budget > 0; i--) {
            Case d = c;
            d.g.edges.erase(d.g.edges.begin() + i);
            d.g.w.erase(d.g.w.begin() + i);
            budget--;
            if (still_fails(d)) { c = d; progress = true; }
        }
        // drop isolated vertices
        for (int v = c.g.n - 1; v >= 0 && budget > 0; v--) {
            Case d = c;
            if (!remove_vertex(d.g, v)) continue;
            budget--;
            if (still_fails(d)) { c = d; progress = true; }
        }
        // contract-like: remove a vertex together with its edges
        for (int v = c.g.n - 1; v >= 0 && budget > 0; v--) {
            Case d = c;
            for (int i = d.g.m() - 1; i >= 0; i--) if (d.g.edges[i][0] == v || d.g.edges[i][1] == v) {
                d.g.edges.erase(d.g.edges.begin() + i);
                d.g.w.erase(d.g.w.begin() + i);
            }
            if (d.g.m() == c.g.m()) continue;
            remove_vertex(d.g, v);
            budget--;
            if (still_fails(d)) { c = d; progress = true; }
        }
        // simplify weights (towards the smallest weight present: keeps the magnitudes, hence the exact-summability, of the case)
        double wmin = 1;
        if (!c.g.w.empty()) { wmin = c.g.w[0]; for (double x : c.g.w) wmin = std::min(wmin, x); }
        if (c.wtype == "int" || wmin >= 1) wmin = 1;
        {
            Case d = c;
            bool ch = false;
            for (auto &x : d.g.w) if (x != wmin) { x = wmin; ch = true; }
            if (ch) { budget--; if (still_fails(d)) { c = d; progress = true; } }
        }
        for (int i = 0; i < c.g.m() && budget > 0; i++) {
            if (c.g.w[i] == wmin) continue;
            Case d = c;
            d.g.w[i] = wmin;
            budget--;
            if (still_fails(d)) { c = d; progress = true; }
        }
        // tapes
        while (!c.tape.empty() && budget > 0) {
            Case d = c;
            d.tape.pop_back();
            budget--;
            if (still_fails(d)) { c = d; progress = true; } else break;
        }
        for (size_t i = 0; i < c.tape.size() && budget > 0; i++) {
            if (c.tape[i] == 0) continue;
            Case d = c;
            d.tape[i] = 0;
            budget--;
            if (still_fails(d)) { c = d; progress = true; }
        }
        if (c.k > 1 && budget > 0) {
            Case d = c;
            d.k = c.k - 1;
            budget--;
            if (still_fails(d)) { c = d; progress = true; }
        }
    }
}

inline int run_main(int argc, char **argv, std::map<std::string, Prop> &props) {
    Args a = parse_args(argc, argv);
    auto it = props.find(a.property);
    if (it == props.end()) { fprintf(stderr, "unknown property %s\n", a.property.c_str()); return 2; }
    Prop &P = it->second;
    Stats &S = stats();
    S.out_path = a.stats_path;
    S.property = a.property;
    install_death_handlers();

    if (!a.replay.empty()) {
        Case c;
        std::string err;
        if (!Case::load(a.replay, c, err)) { fprintf(stderr, "replay: %s\n", err.c_str()); return 2; }
        S.current_case = c.text();
        S.dump("in-progress");  // if the process dies hard, the driver still sees a record
        Verdict v = P.check(c);
        if (!v.ok) {
            S.failures.push_back({v.key, v.message, c.text()});
            S.dump();
            printf("REPLAY-FAIL key=%s msg=%s\n", v.key.c_str(), v.message.c_str());
            return 1;
        }
        S.dump();
        printf("REPLAY-PASS\n");
        return 0;
    }

    Case lastFail;
    Verdict lastV;
    bool haveFail = false;
    time_t shrink_deadline = 0;
    bool trace_current = getenv("VERIF_TRACE_CURRENT") != nullptr && !a.stats_path.empty();
    long leak_every = getenv("VERIF_LEAKCHECK") ? atol(getenv("VERIF_LEAKCHECK")) : 0, leak_counter = 0;
    bool ok = rc::check(a.property, [&]() {
        // bound the time rapidcheck spends shrinking (large cases): once over, every further candidate "passes" unevaluated;
        // this only affects how small the reported case is - our own time-bounded minimiser runs afterwards
        if (haveFail && time(nullptr) > shrink_deadline) return;
        Case c = P.gen();
        c.property = a.property;
        S.current_case = c.text();
        if (trace_current) {   // for monitors that kill the process without running our handlers (valgrind --exit-on-first-error)
            std::ofstream cf(a.stats_path + ".current", std::ios::trunc);
            cf << S.current_case;
        }
        Verdict v = P.check(c);
        if (v.ok && leak_every > 0 && (++leak_counter % leak_every) == 0 && __lsan_do_recoverable_leak_check
            && __lsan_do_recoverable_leak_check() != 0)
            v = Verdict::fail(a.property + "/" + c.entry + "/any/leak", "LeakSanitizer found memory that became unreachable during the last "
                              + std::to_string(leak_every) + " cases (report above)");
        if (!v.ok && excludes().match(v.key)) {
            if (S.counting) S.excluded[v.key]++;
            return;
        }
        if (!v.ok) { if (!haveFail) shrink_deadline = time(nullptr) + 60; lastFail = c; lastV = v; haveFail = true; }
        if (!v.ok) RC_FAIL(v.key + ": " + v.message);
    });
    if (!ok && haveFail) {
        S.counting = false;
        std::string key = lastV.key;
        auto still = [&](const Case &d) {
            S.current_case = d.text();
            Verdict v = P.check(d);
            if (!v.ok && v.key == key) { lastV = v; return true; }
            return false;
        };
        if (P.custom_min) P.custom_min(lastFail, still);
        else if (P.graph_case) minimise_graph_case(lastFail, still);
        S.failures.push_back({lastV.key, lastV.message, lastFail.text()});
        if (!a.newdir.empty()) {
            mkdir(a.newdir.c_str(), 0755);
            char nm[64];
            snprintf(nm, sizeof nm, "%016" PRIx64, fnv1a(lastFail.text()));
            std::string path = a.newdir + "/" + a.property + "-" + nm + ".case";
            std::ofstream f(path);
            f << "# key " << lastV.key << "\n# " << lastV.message << "\n" << lastFail.text();
            printf("FAILCASE %s key=%s\n", path.c_str(), lastV.key.c_str());
        }
    } else if (!ok) {
        // rapidcheck gave up / generator failure: machinery problem, not a verdict
        S.dump("rapidcheck-gave-up");
        return 2;
    }
    S.dump();
    return ok ? 0 : 1;
}

} // namespace vf

// C01 C02 C08 C09: exact algorithms (sequential + real-libtbb variants) against independent oracles.
#include <parmcb/parmcb.hpp>

#include "runner.hpp"
#include "lib.hpp"
#include <tbb/global_control.h>
#include <memory>

using namespace vf;

struct RunOut {
    bool threw = false;
    std::string what;
    std::vector<std::vector<int>> cycles;
    bool foreign = false;
    std::string foreign_why;
    double returned = 0;
};

static int g_workers = 0;   // >0: limit TBB parallelism for the call (case field "workers")

template <class W>
static RunOut run_entry_t(const std::string &entry, const GraphSpec &s) {
    RunOut r;
    std::unique_ptr<tbb::global_control> gc;
    gc.reset(new tbb::global_control(tbb::global_control::max_allowed_parallelism, (std::size_t) (g_workers > 0 ? g_workers : 2)));
    BG<W> bg(s);
    typedef typename BG<W>::Edge Edge;
    std::list<std::list<Edge>> cycles;
    try {
        W ret;
        auto wm = bg.wmap();
        if (entry == "mcb_sva_signed") ret = parmcb::mcb_sva_signed(bg.g, wm, std::back_inserter(cycles));
        else if (entry == "mcb_sva_fvs_trees") ret = parmcb::mcb_sva_fvs_trees(bg.g, wm, std::back_inserter(cycles));
        else if (entry == "mcb_sva_iso_trees") ret = parmcb::mcb_sva_iso_trees(bg.g, wm, std::back_inserter(cycles));
        else if (entry == "mcb_sva_signed_tbb") ret = parmcb::mcb_sva_signed_tbb(bg.g, wm, std::back_inserter(cycles));
        else if (entry == "mcb_sva_fvs_trees_tbb") ret = parmcb::mcb_sva_fvs_trees_tbb(bg.g, wm, std::back_inserter(cycles));
        else if (entry == "mcb_sva_iso_trees_tbb") ret = parmcb::mcb_sva_iso_trees_tbb(bg.g, wm, std::back_inserter(cycles));
        else { r.threw = true; r.what = "unknown entry " + entry; return r; }
        r.returned = (double) ret;
    } catch (const std::exception &e) {
        r.threw = true;
        r.what = e.what();
        return r;
    } catch (...) {
        r.threw = true;
        r.what = "non-std exception";
        return r;
    }
    if (!bg.to_indices(cycles, s, r.cycles, r.foreign_why)) r.foreign = true;
    return r;
}
static RunOut run_entry(const std::string &entry, const std::string &wtype, const GraphSpec &s, int workers = 0) {
    g_workers = workers;
    if (wtype == "int") return run_entry_t<int>(entry, s);
    return run_entry_t<double>(entry, s);
}

static const char *SEQ[] = {"mcb_sva_signed", "mcb_sva_fvs_trees", "mcb_sva_iso_trees"};
static const char *ALL6[] = {"mcb_sva_signed", "mcb_sva_fvs_trees", "mcb_sva_iso_trees",
                             "mcb_sva_signed_tbb", "mcb_sva_fvs_trees_tbb", "mcb_sva_iso_trees_tbb"};

static int g_maxM = 1000000;
static int g_maxN = 12;

// ------------------------------------------------------------------ C01 / C02
static Case gen_c0102() {
    Case c;
    c.entry = SEQ[pick(0, 2)];
    c.wtype = coin(35) ? "int" : "double";
    GenOpts o;
    o.maxN = g_maxN;
    o.maxM = g_maxM;
    c.g = gen_graph_raw(o, c.wtype == "int" ? WDom::ExactInt : WDom::Exact);
    return c;
}

static Verdict check_valid_basis(const std::string &P, const Case &c, const RunOut &r, const std::string &icls) {
    std::string base = P + "/" + c.entry + "/" + icls + "/";
    if (r.threw) return Verdict::fail(base + "exception", r.what);
    if (r.foreign) return Verdict::fail(base + "foreign-edge", r.foreign_why);
    std::string msg;
    std::string d = basis_defect(c.g, r.cycles, msg);
    if (!d.empty()) return Verdict::fail(base + d, msg);
    return Verdict::pass();
}

static Verdict check_c01(const Case &c) {
    if (!in_exact_domain(c.g)) { stats().note_case(c, false); stats().cls("skipped-outside-exact-domain"); return Verdict::pass(); }
    Stats &S = stats();
    int dim = cycle_dim(c.g);
    bool ties = has_weight_ties(c.g);
    S.note_case(c, dim >= 2 && ties);
    S.cls(std::string("wtype-") + c.wtype);
    S.cls(c.entry);
    if (c.g.n == 0) S.cls("empty-graph");
    if (dim == 0) S.cls("forest"); else S.cls(num_components(c.g) > 1 ? "cyclic-multi-component" : "cyclic-connected");
    if (dim >= c.g.n && c.g.n > 0) S.cls("dim>=n");
    RunOut r = run_entry(c.entry, c.wtype, c.g);
    return check_valid_basis("C01", c, r, "exact-" + c.wtype);
}

static Verdict check_c02(const Case &c) {
    if (!in_exact_domain(c.g)) { stats().note_case(c, false); stats().cls("skipped-outside-exact-domain"); return Verdict::pass(); }
    Stats &S = stats();
    int dim = cycle_dim(c.g);
    RefMCB ref = ref_mcb(c.g);
    {   // oracle self-test: the two independent references must agree (first 300 brute-force-sized cases of a shard)
        static int selftests = 0;
        if (brute_feasible(c.g) && selftests < 300 && S.counting) {
            selftests++;
            RefMCB b = ref_depina(c.g);
            if (b.total != ref.total || b.sorted_weights != ref.sorted_weights) {
                fprintf(stderr, "ORACLE SELF-TEST FAILED on\n%s\n", c.text().c_str());
                _exit(2);
            }
            S.cls("oracle-selftest-agreed");
        }
    }
    bool nontriv = dim >= 2 && (brute_feasible(c.g) ? ref.has_equal_weight_cycles : has_weight_ties(c.g));
    S.note_case(c, nontriv);
    S.cls(std::string("wtype-") + c.wtype);
    S.cls(c.entry);
    S.cls(brute_feasible(c.g) ? "oracle-bruteforce" : "oracle-depina");
    if (dim == 0) S.cls("forest");
    RunOut r = run_entry(c.entry, c.wtype, c.g);
    std::string icls = "exact-" + c.wtype;
    Verdict v = check_valid_basis("C02", c, r, icls);
    if (!v.ok) return v;
    std::string base = "C02/" + c.entry + "/" + icls + "/";
    auto w = exact_weights(c.g);
    i128 sum = cycles_weight(r.cycles, w);
    i128 ret;
    if (!to_exact(r.returned, ret) || ret != sum)
        return Verdict::fail(base + "returned-not-sum", "returned " + std::to_string(r.returned) + " but emitted cycles weigh " + i128_str(sum));
    if (sum != ref.total)
        return Verdict::fail(base + "not-minimum", "emitted weight " + i128_str(sum) + " optimum " + i128_str(ref.total));
    if (cycles_sorted_weights(r.cycles, w) != ref.sorted_weights)
        return Verdict::fail(base + "weight-vector-differs", "sorted cycle weights differ from the optimum's");
    return Verdict::pass();
}


// ------------------------------------------------------------------ C07E: all six entry points, worker counts, validity only
static Case gen_c07e() {
    Case c;
    c.entry = ALL6[pick(0, 5)];
    c.wtype = coin(35) ? "int" : "double";
    GenOpts o;
    o.maxN = g_maxN;
    o.maxM = g_maxM;
    c.g = gen_graph_raw(o, c.wtype == "int" ? WDom::ExactInt : WDom::Exact);
    static const int ws[] = {1, 2, 8};
    c.workers = ws[pick(0, 2)];
    return c;
}
static Verdict check_c07e(const Case &c) {
    if (!in_exact_domain(c.g)) { stats().note_case(c, false); stats().cls("skipped-outside-exact-domain"); return Verdict::pass(); }
    Stats &S = stats();
    int dim = cycle_dim(c.g);
    bool special = c.g.n <= 1 || dim == 0 || num_components(c.g) > 1;
    S.note_case(c, special);
    S.cls(c.entry);
    S.cls("workers-" + std::to_string(c.workers));
    if (c.g.n == 0) S.cls("empty-graph");
    if (c.g.n == 1) S.cls("single-vertex");
    if (dim == 0) S.cls("forest");
    if (num_components(c.g) > 1) S.cls("disconnected");
    RunOut r = run_entry(c.entry, c.wtype, c.g, c.workers);
    return check_valid_basis("C07", c, r, "exact-" + c.wtype);
}

// ------------------------------------------------------------------ C08: metamorphic relations
struct Lcg {
    uint64_t s;
    explicit Lcg(uint64_t seed) : s(seed * 6364136223846793005ULL + 1442695040888963407ULL) {}
    uint32_t next() { s = s * 6364136223846793005ULL + 1442695040888963407ULL; return (uint32_t) (s >> 33); }
    int below(int n) { return n <= 0 ? 0 : (int) (next() % (uint32_t) n); }
};

// transform recipe: "<kind> <a> <b>"; pure function of (graph, recipe). returns relation: value(T) == value(G)*2^scale + add
struct Relation { int scale = 0; bool add_h = false; };

static GraphSpec apply_transform(const GraphSpec &g, const std::string &kind, long a, long b, const GraphSpec &h, bool is_int, Relation &rel) {
    GraphSpec t = g;
    Lcg R((uint64_t) a * 1000003ULL + (uint64_t) b);
    if (kind == "perm") {
        std::vector<int> vp(g.n);
        for (int i = 0; i < g.n; i++) vp[i] = i;
        for (int i = g.n - 1; i > 0; i--) std::swap(vp[i], vp[R.below(i + 1)]);
        std::vector<int> ep(g.m());
        for (int i = 0; i < g.m(); i++) ep[i] = i;
        for (int i = g.m() - 1; i > 0; i--) std::swap(ep[i], ep[R.below(i + 1)]);
        t.edges.clear();
        t.w.clear();
        for (int i = 0; i < g.m(); i++) {
            auto e = g.edges[ep[i]];
            int x = vp[e[0]], y = vp[e[1]];
            if (R.below(2)) std::swap(x, y);
            t.edges.push_back({x, y});
            t.w.push_back(g.w[ep[i]]);
        }
    } else if (kind == "isolated") {
        t.n += 1 + (int) (a % 5);
    } else if (kind == "pendant") {
        int cnt = 1 + (int) (a % 6);
        for (int i = 0; i < cnt; i++) {
            int v = t.n++;
            if (v == 0) continue;
            t.edges.push_back({v, R.below(v)});
            t.w.push_back(is_int ? 1 + R.below(3) : (double) (1 + R.below(8)));
        }
    } else if (kind == "bridge") {
        // join two different components by one new edge (a bridge), if there are two
        UnionFind uf(g.n);
        for (auto &e : g.edges) uf.unite(e[0], e[1]);
        if (g.n >= 2) {
            int u = R.below(g.n);
            for (int k = 0; k < g.n; k++) {
                int v = (u + 1 + k) % g.n;
                if (uf.find(u) != uf.find(v)) { t.edges.push_back({u, v}); t.w.push_back(is_int ? 2 : 4.0); break; }
            }
        }
    } else if (kind == "union") {
        rel.add_h = true;
        for (int i = 0; i < h.m(); i++) { t.edges.push_back({h.edges[i][0] + g.n, h.edges[i][1] + g.n}); t.w.push_back(h.w[i]); }
        t.n += h.n;
    } else if (kind == "subdivide") {
        int cnt = 1 + (int) (a % 4);
        for (int k = 0; k < cnt && t.m() > 0; k++) {
            int i = R.below(t.m());
            double w = t.w[i], w1, w2;
            if (is_int) { if (w < 2) continue; w1 = 1 + R.below((int) w - 1); w2 = w - w1; }
            else { static const double fr[] = {0.5, 0.25, 0.75}; w1 = w * fr[R.below(3)]; w2 = w - w1; }
            if (!(w1 > 0) || !(w2 > 0) || w1 + w2 != w) continue;
            int u = t.edges[i][0], v = t.edges[i][1], x = t.n++;
            t.edges[i] = {u, x};
            t.w[i] = w1;
            t.edges.push_back({x, v});
            t.w.push_back(w2);
        }
    } else if (kind == "scale") {
        int j = (int) (a % 17) - 8;
        if (is_int) j = (int) (a % 5);
        rel.scale = j;
        for (auto &w : t.w) w = std::ldexp(w, j);
    }
    return t;
}

static const char *XF[] = {"perm", "perm", "perm", "isolated", "pendant", "bridge", "union", "subdivide", "subdivide", "scale"};

static Case gen_c08() {
    Case c;
    c.entry = ALL6[pick(0, 5)];   // variant used on the transformed graph
    c.wtype = coin(30) ? "int" : "double";
    GenOpts o;
    o.maxN = g_maxN;
    o.maxM = g_maxM;
    o.allow_trivial = false;
    WDom dom = c.wtype == "int" ? WDom::ExactInt : WDom::Exact;
    if (g_maxN > 60) {
        // large class: size drawn near the top, density bounded by maxM
        o.maxN = g_maxN;
        o.maxM = g_maxM;
        c.g = gen_graph_raw(o, dom);
        for (int tries = 0; tries < 3 && c.g.n < g_maxN / 3; tries++) c.g = gen_graph_raw(o, dom);
    } else c.g = gen_graph_raw(o, dom);
    std::string kind = XF[pick(0, 9)];
    c.extra.push_back("transform " + kind + " " + std::to_string(pick(0, 1 << 20)) + " " + std::to_string(pick(0, 1 << 20)));
    if (kind == "union") {
        GenOpts oh;
        oh.maxN = std::min(g_maxN, 14);
        GraphSpec h = gen_graph_raw(oh, dom);
        c.extra.push_back("h_n " + std::to_string(h.n));
        for (int i = 0; i < h.m(); i++) {
            char b[96];
            snprintf(b, sizeof b, "h_e %d %d %a", h.edges[i][0], h.edges[i][1], h.w[i]);
            c.extra.push_back(b);
        }
    }
    { static const int ws[] = {1, 2, 2, 3, 4, 8}; c.workers = ws[pick(0, 5)]; }   // always bounded: 16 shards run side by side
    return c;
}

static Verdict check_c08(const Case &c) {
    if (!in_exact_domain(c.g)) { stats().note_case(c, false); stats().cls("skipped-outside-exact-domain"); return Verdict::pass(); }
    Stats &S = stats();
    std::string icls = "exact-" + c.wtype;
    bool is_int = c.wtype == "int";
    // int domain: keep everything comfortably below 2^30
    if (is_int) { double tot = 0; for (double w : c.g.w) tot += w; if (tot * 16 * 2 >= (double) (1 << 30)) { S.note_case(c, false); S.cls("skipped-int-range"); return Verdict::pass(); } }
    std::istringstream ts(c.xval("transform"));
    std::string kind;
    long a = 0, b = 0;
    ts >> kind >> a >> b;
    GraphSpec h;
    h.n = atoi(c.xval("h_n").c_str());
    for (auto &x : c.extra) if (x.compare(0, 4, "h_e ") == 0) {
        std::istringstream is(x.substr(4));
        int u, v; std::string ws;
        is >> u >> v >> ws;
        if (u < h.n && v < h.n) { h.edges.push_back({u, v}); h.w.push_back(strtod(ws.c_str(), nullptr)); }
    }
    Relation rel;
    GraphSpec t = apply_transform(c.g, kind, a, b, h, is_int, rel);
    if (!spec_is_simple(t) || !spec_is_simple(c.g)) { S.note_case(c, false); S.cls("skipped-not-simple"); return Verdict::pass(); }
    {   // the transformed graph (and H) must stay inside the exact domain too
        GraphSpec th = t;
        for (int i = 0; i < h.m(); i++) th.w.push_back(h.w[i]);
        if (!in_exact_domain(t) || !in_exact_domain(th)) { S.note_case(c, false); S.cls("skipped-outside-exact-domain"); return Verdict::pass(); }
    }
    int dim = cycle_dim(c.g);
    S.note_case(c, dim >= 3 && kind != "isolated");
    S.cls("transform-" + kind);
    S.cls(std::string("wtype-") + c.wtype);
    if (c.g.n > 60) S.cls("large(n>60)");
    if (dim >= 100) S.cls("dimension>=100");
    auto wG = exact_weights(c.g);
    // 1. every variant/backend on G: valid basis, returned == sum, all equal
    bool have = false;
    i128 valG = 0;
    for (const char *e : ALL6) {
        RunOut r = run_entry(e, c.wtype, c.g, c.workers);
        Case cc = c;
        cc.entry = e;
        Verdict v = check_valid_basis("C08", cc, r, icls);
        if (!v.ok) return v;
        i128 sum = cycles_weight(r.cycles, wG), ret;
        std::string base = std::string("C08/") + e + "/" + icls + "/";
        if (!to_exact(r.returned, ret) || ret != sum) return Verdict::fail(base + "returned-not-sum", "returned " + std::to_string(r.returned) + " emitted " + i128_str(sum));
        if (have && sum != valG) return Verdict::fail(base + "variants-disagree", std::string(e) + " reports " + i128_str(sum) + " but " + ALL6[0] + " reports " + i128_str(valG));
        if (!have) { valG = sum; have = true; }
    }
    if (c.g.n <= 24) {
        RefMCB ref = ref_mcb(c.g);
        S.cls("with-reference-optimum");
        if (ref.total != valG) return Verdict::fail("C08/" + std::string(ALL6[0]) + "/" + icls + "/not-minimum", "all variants report " + i128_str(valG) + " optimum " + i128_str(ref.total));
    }
    // 2. the relation
    std::string base = "C08/" + c.entry + "/" + icls + "/";
    i128 valH = 0;
    if (rel.add_h && cycle_dim(h) > 0) {
        RunOut rh = run_entry(c.entry, c.wtype, h, c.workers);
        Case ch = c;
        ch.g = h;
        Verdict v = check_valid_basis("C08", ch, rh, icls);
        if (!v.ok) return v;
        valH = cycles_weight(rh.cycles, exact_weights(h));
    }
    RunOut rt = run_entry(c.entry, c.wtype, t, c.workers);
    Case ct = c;
    ct.g = t;
    Verdict v = check_valid_basis("C08", ct, rt, icls);
    if (!v.ok) { v.key = base + "transformed-" + v.key.substr(v.key.rfind('/') + 1); return v; }
    i128 valT = cycles_weight(rt.cycles, exact_weights(t)), retT;
    if (!to_exact(rt.returned, retT) || retT != valT) return Verdict::fail(base + "returned-not-sum", "on transformed graph");
    i128 expect = valG;
    if (rel.scale > 0) expect = valG << rel.scale;
    else if (rel.scale < 0) { expect = valG >> (-rel.scale); if ((expect << (-rel.scale)) != valG) { return Verdict::pass(); } }
    expect += valH;
    if (valT != expect)
        return Verdict::fail(base + "relation-" + kind, "value(G)=" + i128_str(valG) + (rel.add_h ? " value(H)=" + i128_str(valH) : "") + " expected value(T)=" + i128_str(expect) + " got " + i128_str(valT));
    return Verdict::pass();
}

// ------------------------------------------------------------------ C09: inexact floating point weights
static Case gen_c09() {
    Case c;
    c.entry = ALL6[pick(0, 5)];
    c.wtype = "double";
    GenOpts o;
    o.maxN = g_maxN;
    o.maxM = g_maxM;
    c.g = gen_graph_raw(o, WDom::Inexact);
    return c;
}
static Verdict check_c09(const Case &c) {
    Stats &S = stats();
    int dim = cycle_dim(c.g);
    APSP ap = apsp(c.g);
    // near-tie: for some ordered pair (u,v) at least two different last edges (x,v) give a u-v walk whose exact length is within
    // a relative 1e-12 of the shortest distance (exact ties included): rounding of the double sums can then break the tie either way.
    bool real_tie = false;
    {
        auto wx = exact_weights(c.g);
        for (int u = 0; u < c.g.n && !real_tie; u++) for (int v = 0; v < c.g.n && !real_tie; v++) {
            if (u == v || !(ap.d[u][v] < APSP::inf())) continue;
            int tight = 0;
            for (int e = 0; e < c.g.m(); e++) {
                int x;
                if (c.g.edges[e][0] == v) x = c.g.edges[e][1]; else if (c.g.edges[e][1] == v) x = c.g.edges[e][0]; else continue;
                if (!(ap.d[u][x] < APSP::inf())) continue;
                i128 diff = ap.d[u][x] + wx[e] - ap.d[u][v];
                if (diff <= ap.d[u][v] / 1000000000000LL) tight++;
            }
            if (tight >= 2) real_tie = true;
        }
    }
    std::string icls = real_tie ? "near-tie" : "tie-free";
    S.note_case(c, dim >= 1 && real_tie);
    S.cls(c.entry);
    S.cls(icls);
    std::string base = "C09/" + c.entry + "/" + icls + "/";
    RunOut r = run_entry(c.entry, "double", c.g, 0);
    Verdict v = check_valid_basis("C09", c, r, icls);
    if (!v.ok) return v;
    auto w = exact_weights(c.g);
    i128 sum = cycles_weight(r.cycles, w);
    RefMCB ref = ref_mcb(c.g);
    double sumd = (double) sum / std::ldexp(1.0, 62), optd = (double) ref.total / std::ldexp(1.0, 62);
    if (std::fabs(r.returned - sumd) > 1e-9 * sumd + 1e-300)
        return Verdict::fail(base + "returned-not-sum", "returned " + std::to_string(r.returned) + " emitted cycles weigh " + std::to_string(sumd));
    if (sum < ref.total) return Verdict::fail(base + "below-optimum", "impossible: valid basis lighter than optimum (oracle error?)");
    // sum <= (1+1e-9) * opt  evaluated exactly:  (sum - opt) * 1e9 <= opt
    if ((sum - ref.total) > ref.total / 1000000000)
        return Verdict::fail(base + "not-minimum", "emitted weight " + std::to_string(sumd) + " optimum " + std::to_string(optd));
    return Verdict::pass();
}

int main(int argc, char **argv) {
    if (getenv("VERIF_MAXN")) g_maxN = atoi(getenv("VERIF_MAXN"));
    std::map<std::string, Prop> props;
    props["C01"] = Prop{gen_c0102, check_c01};
    props["C02"] = Prop{gen_c0102, check_c02};
    if (getenv("VERIF_MAXM")) g_maxM = atoi(getenv("VERIF_MAXM"));
    props["C07E"] = Prop{gen_c07e, check_c07e};
    props["C08"] = Prop{gen_c08, check_c08};
    props["C09"] = Prop{gen_c09, check_c09};
    return run_main(argc, argv, props);
}

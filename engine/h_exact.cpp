// C01 C02 C08 C09: exact algorithms (sequential + real-libtbb variants) against independent oracles.
#include <parmcb/parmcb.hpp>

#include "runner.hpp"
#include "lib.hpp"

using namespace vf;

struct RunOut {
    bool threw = false;
    std::string what;
    std::vector<std::vector<int>> cycles;
    bool foreign = false;
    std::string foreign_why;
    double returned = 0;
};

template <class W>
static RunOut run_entry_t(const std::string &entry, const GraphSpec &s) {
    RunOut r;
    BG<W> bg(s);
    typedef typename BG<W>::Edge Edge;
    std::list<std::list<Edge>> cycles;
    try {
        W ret;
        auto wm = bg.wmap();
        if (entry == "mcb_sva_signed") ret = parmcb::mcb_sva_signed(bg.g, wm, std::back_inserter(cycles));
        else if (entry == "mcb_sva_fvs_trees") ret = parmcb::mcb_sva_fvs_trees(bg.g, wm, std::back_inserter(cycles));
        else if (entry == "mcb_sva_iso_trees") ret = parmcb::mcb_sva_iso_trees(bg.g, wm, std::back_inserter(cycles));
        else if (entry == "mcb_sva_signed_tbb") ret = parmcb::mcb_sva_signed_tbb(bg.g, wm, std::back_inserter(cycles));
        else if (entry == "mcb_sva_fvs_trees_tbb") ret = parmcb::mcb_sva_fvs_trees_tbb(bg.g, wm, std::back_inserter(cycles));
        else if (entry == "mcb_sva_iso_trees_tbb") ret = parmcb::mcb_sva_iso_trees_tbb(bg.g, wm, std::back_inserter(cycles));
        else { r.threw = true; r.what = "unknown entry " + entry; return r; }
        r.returned = (double) ret;
    } catch (const std::exception &e) {
        r.threw = true;
        r.what = e.what();
        return r;
    } catch (...) {
        r.threw = true;
        r.what = "non-std exception";
        return r;
    }
    if (!bg.to_indices(cycles, s, r.cycles, r.foreign_why)) r.foreign = true;
    return r;
}
static RunOut run_entry(const std::string &entry, const std::string &wtype, const GraphSpec &s) {
    if (wtype == "int") return run_entry_t<int>(entry, s);
    return run_entry_t<double>(entry, s);
}

static const char *SEQ[] = {"mcb_sva_signed", "mcb_sva_fvs_trees", "mcb_sva_iso_trees"};
static const char *ALL6[] = {"mcb_sva_signed", "mcb_sva_fvs_trees", "mcb_sva_iso_trees",
                             "mcb_sva_signed_tbb", "mcb_sva_fvs_trees_tbb", "mcb_sva_iso_trees_tbb"};

static int g_maxN = 12;

// ------------------------------------------------------------------ C01 / C02
static Case gen_c0102() {
    Case c;
    c.entry = SEQ[pick(0, 2)];
    c.wtype = coin(35) ? "int" : "double";
    GenOpts o;
    o.maxN = g_maxN;
    c.g = gen_graph_raw(o, c.wtype == "int" ? WDom::ExactInt : WDom::Exact);
    return c;
}

static Verdict check_valid_basis(const std::string &P, const Case &c, const RunOut &r, const std::string &icls) {
    std::string base = P + "/" + c.entry + "/" + icls + "/";
    if (r.threw) return Verdict::fail(base + "exception", r.what);
    if (r.foreign) return Verdict::fail(base + "foreign-edge", r.foreign_why);
    std::string msg;
    std::string d = basis_defect(c.g, r.cycles, msg);
    if (!d.empty()) return Verdict::fail(base + d, msg);
    return Verdict::pass();
}

static Verdict check_c01(const Case &c) {
    Stats &S = stats();
    int dim = cycle_dim(c.g);
    bool ties = has_weight_ties(c.g);
    S.note_case(c, dim >= 2 && ties);
    S.cls(std::string("wtype-") + c.wtype);
    S.cls(c.entry);
    if (c.g.n == 0) S.cls("empty-graph");
    if (dim == 0) S.cls("forest"); else S.cls(num_components(c.g) > 1 ? "cyclic-multi-component" : "cyclic-connected");
    if (dim >= c.g.n && c.g.n > 0) S.cls("dim>=n");
    RunOut r = run_entry(c.entry, c.wtype, c.g);
    return check_valid_basis("C01", c, r, "exact-" + c.wtype);
}

static Verdict check_c02(const Case &c) {
    Stats &S = stats();
    int dim = cycle_dim(c.g);
    RefMCB ref = ref_mcb(c.g);
    {   // oracle self-test: the two independent references must agree (first 300 brute-force-sized cases of a shard)
        static int selftests = 0;
        if (brute_feasible(c.g) && selftests < 300 && S.counting) {
            selftests++;
            RefMCB b = ref_depina(c.g);
            if (b.total != ref.total || b.sorted_weights != ref.sorted_weights) {
                fprintf(stderr, "ORACLE SELF-TEST FAILED on\n%s\n", c.text().c_str());
                _exit(2);
            }
            S.cls("oracle-selftest-agreed");
        }
    }
    bool nontriv = dim >= 2 && (brute_feasible(c.g) ? ref.has_equal_weight_cycles : has_weight_ties(c.g));
    S.note_case(c, nontriv);
    S.cls(std::string("wtype-") + c.wtype);
    S.cls(c.entry);
    S.cls(brute_feasible(c.g) ? "oracle-bruteforce" : "oracle-depina");
    if (dim == 0) S.cls("forest");
    RunOut r = run_entry(c.entry, c.wtype, c.g);
    std::string icls = "exact-" + c.wtype;
    Verdict v = check_valid_basis("C02", c, r, icls);
    if (!v.ok) return v;
    std::string base = "C02/" + c.entry + "/" + icls + "/";
    auto w = exact_weights(c.g);
    i128 sum = cycles_weight(r.cycles, w);
    i128 ret;
    if (!to_exact(r.returned, ret) || ret != sum)
        return Verdict::fail(base + "returned-not-sum", "returned " + std::to_string(r.returned) + " but emitted cycles weigh " + i128_str(sum));
    if (sum != ref.total)
        return Verdict::fail(base + "not-minimum", "emitted weight " + i128_str(sum) + " optimum " + i128_str(ref.total));
    if (cycles_sorted_weights(r.cycles, w) != ref.sorted_weights)
        return Verdict::fail(base + "weight-vector-differs", "sorted cycle weights differ from the optimum's");
    return Verdict::pass();
}

int main(int argc, char **argv) {
    if (getenv("VERIF_MAXN")) g_maxN = atoi(getenv("VERIF_MAXN"));
    std::map<std::string, Prop> props;
    props["C01"] = Prop{gen_c0102, check_c01};
    props["C02"] = Prop{gen_c0102, check_c02};
    return run_main(argc, argv, props);
}

#include "../../tbb/mock_core.h"

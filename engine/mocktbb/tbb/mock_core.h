// Schedule-controlled stand-in for the subset of oneTBB that parmcb uses (see DESIGN.md 3.4).
// tape mode (default): single thread, every scheduling decision is read from a tape.
// thread mode (-DMOCKTBB_THREADS): every leaf / accumulation run executes on its own std::thread (for ThreadSanitizer).
#ifndef MOCKTBB_CORE_H
#define MOCKTBB_CORE_H

#include <cstddef>
#include <vector>
#include <map>
#include <iterator>
#include <utility>
#include <functional>
#ifdef MOCKTBB_THREADS
#include <thread>
#include <mutex>
#endif

#define TBB_VERSION_MAJOR 2021
#define TBB_VERSION_MINOR 11
#define MOCKTBB 1

namespace mocktbb {

struct Sched {
    std::vector<unsigned> tape;
    std::size_t pos = 0;
    // observation counters (per case; reset by the harness)
    long parallel_fors = 0, parallel_reduces = 0, leaves = 0, runs = 0, joins = 0, reduces_multi_run = 0, fors_multi_leaf = 0,
         pushbacks_in_region = 0, pushback_interleavings = 0, reordered_regions = 0;
    // region bookkeeping
    long region_counter = 0;
    std::vector<long> region_stack;     // ids of open parallel regions
    std::vector<long> leaf_stack;       // id of the leaf being executed (tape mode)
    long leaf_counter = 0;
    std::size_t max_leaves = 64;

    unsigned next() {
        if (tape.empty()) return 0;
        return tape[pos++ % tape.size()];
    }
    void reset(const std::vector<unsigned> &t) {
        *this = Sched();
        tape = t;
    }
    long current_region() const { return region_stack.empty() ? -1 : region_stack.back(); }
    long current_leaf() const { return leaf_stack.empty() ? -1 : leaf_stack.back(); }
};

inline Sched &sched() {
    static Sched s;
    return s;
}

// partition [0,n) into consecutive non-empty pieces by recursive binary splitting at tape-chosen cut points.
// Like oneTBB, a piece is only split while it is divisible (size > grainsize), and no piece gets smaller than grainsize/2.
inline void split_rec(std::size_t lo, std::size_t hi, std::size_t grain, std::vector<std::pair<std::size_t, std::size_t>> &out, std::size_t &budget) {
    Sched &S = sched();
    std::size_t n = hi - lo;
    std::size_t g2 = grain / 2 > 0 ? grain / 2 : 1;
    if (n >= 2 && n > grain && n >= 2 * g2 && budget > 1) {
        unsigned t = S.next();
        if (t % 3 != 0) {
            std::size_t room = n - 2 * g2;              // cut in [lo+g2, hi-g2]
            std::size_t cut = lo + g2 + (room ? S.next() % (room + 1) : 0);
            budget--;
            split_rec(lo, cut, grain, out, budget);
            split_rec(cut, hi, grain, out, budget);
            return;
        }
    }
    out.push_back({lo, hi});
}
inline std::vector<std::pair<std::size_t, std::size_t>> partition(std::size_t n, std::size_t grain = 1) {
    std::vector<std::pair<std::size_t, std::size_t>> out;
    if (n == 0) return out;
    std::size_t budget = sched().max_leaves;
    split_rec(0, n, grain < 1 ? 1 : grain, out, budget);
    return out;
}
// execution order: repeatedly take the (tape % remaining)-th of the remaining items; all-zero tape = in order
inline std::vector<std::size_t> order(std::size_t n) {
    std::vector<std::size_t> rem(n), out;
    for (std::size_t i = 0; i < n; i++) rem[i] = i;
    bool reordered = false;
    while (!rem.empty()) {
        std::size_t k = sched().next() % rem.size();
        if (k != 0) reordered = true;
        out.push_back(rem[k]);
        rem.erase(rem.begin() + (std::ptrdiff_t) k);
    }
    if (reordered) sched().reordered_regions++;
    return out;
}

struct RegionGuard {
    RegionGuard() { Sched &S = sched(); S.region_stack.push_back(++S.region_counter); }
    ~RegionGuard() { sched().region_stack.pop_back(); }
};
struct LeafGuard {
    LeafGuard() { Sched &S = sched(); S.leaf_stack.push_back(++S.leaf_counter); }
    ~LeafGuard() { sched().leaf_stack.pop_back(); }
};

#ifdef MOCKTBB_THREADS
inline std::mutex &big_lock() { static std::mutex m; return m; }
#endif

} // namespace mocktbb

namespace tbb {

struct split {};

template <typename Value>
class blocked_range {
public:
    typedef Value const_iterator;
    typedef std::size_t size_type;
    blocked_range() : b(), e(), g(1) {}
    blocked_range(Value b_, Value e_, size_type g_ = 1) : b(b_), e(e_), g(g_) {}
    const_iterator begin() const { return b; }
    const_iterator end() const { return e; }
    size_type size() const { return (size_type) (e - b); }
    size_type grainsize() const { return g; }
    bool empty() const { return !(b < e); }
    bool is_divisible() const { return g < size(); }
    blocked_range(blocked_range &r, split) : b(r.b + (std::ptrdiff_t) (r.size() / 2)), e(r.e), g(r.g) { r.e = b; }
private:
    Value b, e;
    size_type g;
};

template <typename Range, typename Body>
void parallel_for(const Range &range, const Body &body) {
    using namespace mocktbb;
    Sched &S = sched();
    std::size_t n = range.empty() ? 0 : (std::size_t) (range.end() - range.begin());
    S.parallel_fors++;
    if (n == 0) return;
    auto parts = partition(n, range.grainsize());
    auto ord = mocktbb::order(parts.size());
    S.leaves += (long) parts.size();
    if (parts.size() > 1) S.fors_multi_leaf++;
    RegionGuard rg;
#ifdef MOCKTBB_THREADS
    std::vector<std::thread> th;
    for (std::size_t k : ord) {
        Range sub(range.begin() + (std::ptrdiff_t) parts[k].first, range.begin() + (std::ptrdiff_t) parts[k].second);
        th.emplace_back([sub, &body]() { body(sub); });
    }
    for (auto &t : th) t.join();
#else
    for (std::size_t k : ord) {
        LeafGuard lg;
        Range sub(range.begin() + (std::ptrdiff_t) parts[k].first, range.begin() + (std::ptrdiff_t) parts[k].second);
        body(sub);
    }
#endif
}

template <typename Range, typename Value, typename RealBody, typename Reduction>
Value parallel_reduce(const Range &range, const Value &identity, const RealBody &real_body, const Reduction &reduction) {
    using namespace mocktbb;
    Sched &S = sched();
    std::size_t n = range.empty() ? 0 : (std::size_t) (range.end() - range.begin());
    S.parallel_reduces++;
    if (n == 0) return identity;
    auto parts = partition(n, range.grainsize());
    S.leaves += (long) parts.size();
    // group consecutive leaves into accumulation runs
    std::vector<std::pair<std::size_t, std::size_t>> runs;   // [first leaf, last leaf]
    std::size_t start = 0;
    for (std::size_t i = 1; i < parts.size(); i++) {
        if (S.next() % 2 == 1) { runs.push_back({start, i - 1}); start = i; }
    }
    runs.push_back({start, parts.size() - 1});
    S.runs += (long) runs.size();
    if (runs.size() > 1) S.reduces_multi_run++;
    auto ord = mocktbb::order(runs.size());
    std::vector<Value> vals(runs.size(), identity);
    {
        RegionGuard rg;
#ifdef MOCKTBB_THREADS
        std::vector<std::thread> th;
        for (std::size_t r : ord) {
            th.emplace_back([&, r]() {
                Value v = identity;
                for (std::size_t l = runs[r].first; l <= runs[r].second; l++) {
                    Range sub(range.begin() + (std::ptrdiff_t) parts[l].first, range.begin() + (std::ptrdiff_t) parts[l].second);
                    v = real_body(sub, const_cast<const Value &>(v));
                }
                vals[r] = v;
            });
        }
        for (auto &t : th) t.join();
#else
        for (std::size_t r : ord) {
            LeafGuard lg;
            Value v = identity;
            for (std::size_t l = runs[r].first; l <= runs[r].second; l++) {
                Range sub(range.begin() + (std::ptrdiff_t) parts[l].first, range.begin() + (std::ptrdiff_t) parts[l].second);
                v = real_body(sub, const_cast<const Value &>(v));
            }
            vals[r] = v;
        }
#endif
    }
    // any order-preserving join tree: repeatedly join a tape-chosen adjacent pair
    while (vals.size() > 1) {
        std::size_t k = S.next() % (vals.size() - 1);
        Value j = reduction(const_cast<const Value &>(vals[k]), const_cast<const Value &>(vals[k + 1]));
        vals[k] = j;
        vals.erase(vals.begin() + (std::ptrdiff_t) k + 1);
        S.joins++;
    }
    return vals[0];
}

template <typename T>
class concurrent_vector {
public:
    typedef typename std::vector<T>::iterator iterator;
    typedef typename std::vector<T>::const_iterator const_iterator;
    typedef std::size_t size_type;
    typedef T value_type;
    typedef blocked_range<iterator> range_type;
    typedef blocked_range<const_iterator> const_range_type;

    concurrent_vector() {}
    iterator push_back(const T &x) {
        using namespace mocktbb;
#ifdef MOCKTBB_THREADS
        std::lock_guard<std::mutex> lk(mu);
        v.push_back(x);
        return v.end() - 1;
#else
        Sched &S = sched();
        long region = S.current_region();
        if (region < 0) { v.push_back(x); return v.end() - 1; }
        if (region != my_region) { my_region = region; region_start = v.size(); last_of_leaf.clear(); }
        S.pushbacks_in_region++;
        long leaf = S.current_leaf();
        std::size_t lo = region_start;
        auto it = last_of_leaf.find(leaf);
        if (it != last_of_leaf.end()) lo = it->second + 1;
        std::size_t hi = v.size();
        std::size_t p = hi - (S.next() % (hi - lo + 1));
        if (p < hi) S.pushback_interleavings++;
        v.insert(v.begin() + (std::ptrdiff_t) p, x);
        for (auto &kv : last_of_leaf) if (kv.second >= p) kv.second++;
        last_of_leaf[leaf] = p;
        return v.begin() + (std::ptrdiff_t) p;
#endif
    }
    T &operator[](size_type i) { return v[i]; }
    const T &operator[](size_type i) const { return v[i]; }
    T &at(size_type i) { return v.at(i); }
    const T &at(size_type i) const { return v.at(i); }
    size_type size() const { return v.size(); }
    bool empty() const { return v.empty(); }
    iterator begin() { return v.begin(); }
    iterator end() { return v.end(); }
    const_iterator begin() const { return v.begin(); }
    const_iterator end() const { return v.end(); }
    void clear() { v.clear(); }
    void reserve(size_type n) { v.reserve(n); }
private:
    std::vector<T> v;
#ifdef MOCKTBB_THREADS
    std::mutex mu;
#else
    long my_region = -2;
    std::size_t region_start = 0;
    std::map<long, std::size_t> last_of_leaf;
#endif
};

class global_control {
public:
    enum parameter { max_allowed_parallelism, thread_stack_size, terminate_on_exception, parameter_max };
    global_control(parameter p, std::size_t value) : par(p), old(current()[p]) { current()[p] = value; }
    ~global_control() { current()[par] = old; }
    static std::size_t active_value(parameter p) { return current()[p]; }
private:
    static std::size_t *current() { static std::size_t c[parameter_max] = {16, 0, 0}; return c; }
    parameter par;
    std::size_t old;
};

class task_group {
public:
    template <class F> void run(const F &f) { f(); }
    void wait() {}
};

} // namespace tbb

namespace oneapi { namespace tbb = ::tbb; }

#endif

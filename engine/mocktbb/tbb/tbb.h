#include "mock_core.h"

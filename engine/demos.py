"""C11 (demo programs) and the demo clause of C20: Hypothesis strategies -> DIMACS file + argv -> executables built from /repo/src.

Oracles: exit status, stderr diagnostic, absence of the 'Using ...' line, termination within a watchdog, and the printed weight
against an independent brute-force minimum cycle basis computed here in Python.
"""
import hashlib, json, os, re, shutil, subprocess, sys, time
from concurrent.futures import ThreadPoolExecutor

from hypothesis import given, settings, seed as hseed, strategies as st, HealthCheck, Phase

MPI_INC = ["-isystem", "/usr/lib/x86_64-linux-gnu/openmpi/include", "-isystem", "/usr/lib/x86_64-linux-gnu/openmpi/include/openmpi"]
MPI_LIBS = ["-Wl,-rpath,/usr/lib/x86_64-linux-gnu/openmpi/lib", "-lboost_mpi", "-lboost_serialization",
            "-L/usr/lib/x86_64-linux-gnu/openmpi/lib", "-lmpi_cxx", "-lmpi"]
DEMOS = {"mcb-dimacs": False, "approx-mcb-dimacs": False, "collection-stats-dimacs": False, "mcb-dimacs-mpi": True}
WATCHDOG = 60   # seconds; a demo run on a <=10 vertex graph takes milliseconds (MPI: ~1.5 s)


class Violation(Exception):
    def __init__(self, key, msg, case):
        Exception.__init__(self, "%s: %s" % (key, msg))
        self.key, self.msg, self.case = key, msg, case


def build_demos(repo, builddir, gen_config, tree_hash):
    d = os.path.join(builddir, "demos-" + tree_hash)
    bins = {n: os.path.join(d, n) for n in DEMOS}
    if all(os.path.exists(p) for p in bins.values()):
        return bins
    import glob
    for old in glob.glob(os.path.join(builddir, "demos-*")):
        try:
            if time.time() - os.path.getmtime(old) > 2 * 3600:
                shutil.rmtree(old, ignore_errors=True)
        except OSError:
            pass
    os.makedirs(d, exist_ok=True)
    inc = os.path.join(d, "inc")
    gen_config(inc)

    def one(name):
        cmd = ["g++", "-std=c++14", "-O2", "-DPARMCB_VERIF", "-w", "-I", inc, "-I", os.path.join(repo, "include")]
        if DEMOS[name]:
            cmd += MPI_INC
        cmd += [os.path.join(repo, "src", name + ".cpp"), "-o", bins[name] + ".tmp", "-lboost_timer", "-lboost_program_options",
                "-lboost_thread", "-ltbb", "-lpthread"]
        if DEMOS[name]:
            cmd += MPI_LIBS
        r = subprocess.run(cmd, stdout=subprocess.PIPE, stderr=subprocess.STDOUT, text=True)
        if r.returncode != 0:
            return name, r.stdout[-3000:]
        os.rename(bins[name] + ".tmp", bins[name])
        return name, None
    with ThreadPoolExecutor(max_workers=4) as ex:
        res = list(ex.map(one, DEMOS))
    errs = [(n, e) for n, e in res if e]
    if errs:
        raise RuntimeError("demo build failed: " + "\n".join("%s:\n%s" % ne for ne in errs))
    return bins


# ------------------------------------------------------------------ independent optimum (brute force, small graphs)
def mcb_weight(n, edges):
    """edges: list of (u, v, w) 0-based simple graph.  Returns (dimension, optimum weight)."""
    m = len(edges)
    adj = [[] for _ in range(n)]
    for i, (u, v, w) in enumerate(edges):
        adj[u].append((v, i))
        adj[v].append((u, i))
    cycles = []
    for s in range(n):
        def dfs(u, mask, wt, on, first_e, second_v):
            for v, e in adj[u]:
                if v < s:
                    continue
                if v == s:
                    if e != first_e and first_e is not None and second_v < u:
                        cycles.append((wt + edges[e][2], mask | (1 << e)))
                    continue
                if v in on:
                    continue
                on.add(v)
                dfs(v, mask | (1 << e), wt + edges[e][2], on, e if first_e is None else first_e, v if second_v is None else second_v)
                on.discard(v)
        dfs(s, 0, 0, {s}, None, None)
    # components
    par = list(range(n))

    def find(x):
        while par[x] != x:
            par[x] = par[par[x]]
            x = par[x]
        return x
    c = n
    for u, v, w in edges:
        a, b = find(u), find(v)
        if a != b:
            par[a] = b
            c -= 1
    dim = m - n + c
    cycles.sort(key=lambda t: t[0])
    basis = {}
    total = 0
    cnt = 0
    for wt, mask in cycles:
        if cnt == dim:
            break
        x = mask
        while x:
            hb = x.bit_length() - 1
            if hb in basis:
                x ^= basis[hb]
            else:
                basis[hb] = x
                total += wt
                cnt += 1
                break
    assert cnt == dim, "oracle: simple cycles do not span"
    return dim, total


# ------------------------------------------------------------------ strategies
@st.composite
def graphs(draw):
    big = draw(st.integers(0, 6)) == 0
    if big:   # 33..70 vertices, sparse: a random recursive tree plus 1-4 extra edges (few simple cycles, varied neighbourhoods)
        n = draw(st.sampled_from(list(range(33, 71))))
        chosen = [(i, draw(st.integers(0, i - 1))) for i in range(1, n)]
        have = set((min(a, b), max(a, b)) for a, b in chosen)
        for _ in range(draw(st.integers(1, 4))):
            a = draw(st.integers(0, n - 1))
            b = draw(st.integers(0, n - 1))
            if a != b and (min(a, b), max(a, b)) not in have:
                have.add((min(a, b), max(a, b)))
                chosen.append((a, b))
    else:
        n = draw(st.integers(2, 9))
        pairs = [(u, v) for u in range(n) for v in range(u + 1, n)]
        dens = draw(st.sampled_from([0.3, 0.5, 0.8]))
        chosen = [p for p in pairs if draw(st.floats(0, 1)) < dens]
        if not chosen:
            chosen = [pairs[0]]
        chosen = chosen[:20]
    pal = draw(st.sampled_from([1, 3, 20]))
    kind = draw(st.sampled_from(["int", "int", "int", "half", "tiny"]))
    edges = []
    for (u, v) in chosen:
        if draw(st.booleans()):
            u, v = v, u
        w = draw(st.integers(1, pal))
        if kind == "half":
            w = w + 0.5          # exact in binary, printed exactly with 6 significant digits
        elif kind == "tiny":
            w = w * 2.0 ** -22   # about 2.4e-7 per unit: sums far below 1, exactly summable, printed in scientific notation
        edges.append((u, v, w))
    return n, edges


@st.composite
def spoils(draw, n, edges):
    """returns extra edge lines (u,v,wtext) violating >= 1 precondition"""
    if draw(st.integers(0, 9)) < 6:   # a single violated precondition most of the time: the other checks cannot mask a missing one
        kinds = [draw(st.sampled_from(["loop", "multi", "nonpos"]))]
    else:
        kinds = draw(st.lists(st.sampled_from(["loop", "multi", "nonpos"]), min_size=2, max_size=3, unique=True))
    extra = []
    for k in kinds:
        if k == "loop":
            v = draw(st.integers(0, n - 1))
            extra.append((v, v, str(draw(st.integers(1, 5)))))
        elif k == "multi":
            u, v, w = edges[draw(st.integers(0, len(edges) - 1))]
            if draw(st.booleans()):
                u, v = v, u
            extra.append((u, v, str(draw(st.integers(1, 5)))))
        else:
            # a non-positive weight that violates ONLY this precondition: on a vertex pair that is not an edge yet
            # (when the graph is complete: on any pair, which then also is a repeated pair)
            have = set((min(a, b), max(a, b)) for a, b, _ in edges)
            free = [(a, b) for a in range(n) for b in range(a + 1, n) if (a, b) not in have]
            if free:
                u, v = free[draw(st.integers(0, len(free) - 1))]
                if draw(st.booleans()):
                    u, v = v, u
            else:
                u = draw(st.integers(0, n - 1))
                v = draw(st.integers(0, n - 1).filter(lambda x: x != u))
            extra.append((u, v, draw(st.sampled_from(["0", "-1", "-2.5", "0.0"]))))
    where = draw(st.integers(0, 9))   # file position of the offending lines: the end and the start are over-weighted
    pos = len(edges) if where < 4 else 0 if where < 6 else draw(st.integers(0, len(edges)))
    return kinds, extra, pos


def dimacs_text(n, lines, trailing_newline=True, style=0):
    """style bits: 1 = 'a' tags on every other edge line, 2 = comment lines ('c' before the problem line, '#' between edges),
    4 = tab separators"""
    sep = "\t" if style & 4 else " "
    out = []
    if style & 2:
        out.append("c generated file")
    out.append("p edge %d %d" % (n, len(lines)))
    for i, (u, v, w) in enumerate(lines):
        tag = "a" if (style & 1) and i % 2 == 1 else "e"
        out.append(sep.join([tag, str(u + 1), str(v + 1), str(w)]))
        if (style & 2) and i == len(lines) // 2:
            out.append("# halfway")
    t = "\n".join(out)
    if trailing_newline:
        t += "\n"
    return t


ALGOS = [[], ["--signed=false", "--fvstrees=true"], ["--signed=false"]]


@st.composite
def exact_opts(draw):
    o = list(draw(st.sampled_from(ALGOS)))
    par = draw(st.booleans())
    o.append("--parallel=%s" % ("true" if par else "false"))
    cores = draw(st.sampled_from([None, 0, 1, 2, 3, 4, 7, hw_threads(), hw_threads() + 3, 33]))
    if cores is not None:
        o.append("--cores=%d" % cores)
    if draw(st.booleans()):
        o.append("--verbose=true")
    if draw(st.booleans()):
        o.append("--printcycles=true")
    return o, par, cores


def run(cmd, timeout=WATCHDOG, env_extra=None):
    import signal
    t0 = time.time()
    env = None
    if env_extra:
        env = dict(os.environ)
        env.update(env_extra)
    p = subprocess.Popen(cmd, stdout=subprocess.PIPE, stderr=subprocess.PIPE, text=True, errors="replace", start_new_session=True, env=env)
    try:
        out, err = p.communicate(timeout=timeout)
        return p.returncode, out, err, False, time.time() - t0
    except subprocess.TimeoutExpired:
        try:
            os.killpg(p.pid, signal.SIGKILL)
        except ProcessLookupError:
            pass
        # mpiexec may have put the ranks into their own sessions: kill by executable path + input file as well
        subprocess.run(["pkill", "-9", "-f", cmd[-1]], stdout=subprocess.DEVNULL, stderr=subprocess.DEVNULL)
        try:
            out, err = p.communicate(timeout=10)
        except subprocess.TimeoutExpired:
            out, err = "", ""
        return -9, out, err, True, time.time() - t0


MPIRUN = ["mpiexec", "--allow-run-as-root", "--host", "localhost:64", "-n"]


class Env:
    def __init__(self, bins, workdir):
        self.bins, self.workdir = bins, workdir
        os.makedirs(workdir, exist_ok=True)
        self.launches = 0
        self.counter = 0

    def write(self, text):
        self.counter += 1
        p = os.path.join(self.workdir, "g%d_%s.gr" % (os.getpid(), hashlib.sha1(text.encode()).hexdigest()[:10]))
        with open(p, "w") as f:
            f.write(text)
        return p

    def launch_many(self, plans):
        """plans: list of (demo, text, opts, procs); all launched concurrently; returns results in the same order"""
        paths = [self.write(t) for _, t, _, _ in plans]
        with ThreadPoolExecutor(max_workers=6) as ex:
            futs = [ex.submit(self.launch, d, p, o, pr) for (d, _, o, pr), p in zip(plans, paths)]
            return [f.result() for f in futs]

    def launch(self, demo, path, opts, procs=0, affinity=0):
        cmd = ([] if not procs else MPIRUN + [str(procs)]) + [self.bins[demo]] + list(opts) + [path]
        if affinity and not procs:
            allowed = sorted(os.sched_getaffinity(0))
            if shutil.which("taskset") and len(allowed) > affinity:
                cmd = ["taskset", "-c", ",".join(str(x) for x in allowed[:affinity])] + cmd
        self.launches += 1
        if not procs:
            return run(cmd)
        # every mpiexec gets its own session directory: concurrent launches otherwise race on /tmp/ompi.<host>.<uid>
        for attempt in range(3):
            self.counter += 1
            td = os.path.join(self.workdir, "ompi-%d-%d" % (os.getpid(), self.counter))
            os.makedirs(td, exist_ok=True)
            res = run(cmd, env_extra={"TMPDIR": td, "OMPI_MCA_orte_tmpdir_base": td})
            shutil.rmtree(td, ignore_errors=True)
            if res[0] != 0 and ("unable to create the desired directory" in res[2] or "orte_init failed" in res[2] or "opal_init" in res[2]):
                continue   # launcher infrastructure failure, not a verdict about the program
            return res
        return res


def case_of(demo, text, opts, procs, affinity=0):
    return dict(demo=demo, text=text, opts=list(opts), procs=procs, affinity=affinity)


def weight_of(stdout):
    m = re.search(r"^MCB weight = (\S+)\s*$", stdout, re.M)
    return m.group(1) if m else None


def check_spoiled(env, demo, text, opts, procs, kinds, res=None):
    if res is None:
        path = env.write(text)
        res = env.launch(demo, path, opts, procs)
    rc, out, err, to, dt = res
    case = case_of(demo, text, opts, procs)
    base = "C11/%s/spoiled-%s/" % (demo, "mpi-P%d" % procs if procs else "serial")
    if to:
        raise Violation(base + "hang", "did not terminate within %ds on input violating %s" % (WATCHDOG, "+".join(kinds)), case)
    if rc == 0:
        raise Violation(base + "exit-status-zero", "input violates %s but exit status is 0" % "+".join(kinds), case)
    if "Using " in out or "MCB weight" in out or " cycles: " in out:
        raise Violation(base + "algorithm-ran", "an algorithm ran on input violating %s" % "+".join(kinds), case)
    if not re.search(r"abort|loops|multiple|negative|zero", err):
        raise Violation(base + "no-diagnostic", "no diagnostic on stderr (stderr=%r)" % err[:200], case)


def check_valid(env, demo, text, opts, procs, opt, k=None, res=None):
    if res is None:
        path = env.write(text)
        res = env.launch(demo, path, opts, procs)
    rc, out, err, to, dt = res
    case = case_of(demo, text, opts, procs)
    base = "C11/%s/valid-%s/" % (demo, "mpi-P%d" % procs if procs else "serial")
    if to:
        raise Violation(base + "hang", "did not terminate within %ds on a valid file" % WATCHDOG, case)
    if rc != 0:
        raise Violation(base + "exit-status", "valid file but exit status %d (stderr=%r)" % (rc, err[:300]), case)
    if demo == "collection-stats-dimacs":
        return None
    w = weight_of(out)
    if w is None:
        raise Violation(base + "no-weight-line", "no 'MCB weight = ' line in the output", case)
    try:
        wv = float(w)
    except ValueError:
        raise Violation(base + "weight-not-a-number", "printed weight %r" % w, case)
    tol = 1e-5 * float(opt)   # the programs print 6 significant digits
    if k is None:
        if abs(wv - float(opt)) > tol:
            raise Violation(base + "wrong-weight", "printed MCB weight %s, minimum cycle basis weighs %s" % (w, opt), case)
    else:
        if not (float(opt) - tol <= wv <= (2 * k - 1) * float(opt) + tol):
            raise Violation(base + "weight-outside-bounds", "printed weight %s not in [opt, (2k-1)*opt] = [%s, %s]" % (w, opt, (2 * k - 1) * opt), case)
    return w


def hw_threads():
    return os.cpu_count() or 1


def check_cores_line(out, par, cores, demo, text, opts, affinity=0):
    """C20 demo clause: the guarded hook line printed right before the algorithm call"""
    m = re.search(r"^VERIF tbb_max_allowed_parallelism=(\d+)\s*$", out, re.M)
    case = case_of(demo, text, opts, 0, affinity)
    base = "C20/%s/demo-options/" % demo
    if not m:
        raise Violation(base + "no-hook-line", "hook line missing (demo not built with PARMCB_VERIF?)", case)
    v = int(m.group(1))
    if par and cores is not None and cores >= 1:
        want = cores
        if v != want:
            raise Violation(base + "cores-not-applied", "--parallel=true --cores=%d but allowed parallelism before the algorithm is %d" % (cores, v), case)
    return v


# ------------------------------------------------------------------ properties
def make_c11(env, stats):
    @st.composite
    def example(draw):
        n, edges = draw(graphs())
        spoiled = draw(st.booleans())
        nl = draw(st.sampled_from([True, True, False]))
        ex = dict(n=n, edges=edges, nl=nl, spoiled=spoiled)   # 'spoiled' only selects which of the two files goes through MPI
        ex["style"] = draw(st.integers(0, 7))
        ex["spoil"] = draw(spoils(n, edges))
        ex["exact"] = draw(st.lists(exact_opts(), min_size=2, max_size=3))
        ex["approx"] = draw(exact_opts())
        ex["k"] = draw(st.integers(2, 5))
        ex["mpi"] = draw(st.sampled_from([None, (1, 0), (2, 0), (2, 1), (2, 2), (3, 2), (4, 0), (3, 1)]))
        ex["mpi_print"] = draw(st.booleans())
        ex["mpi_p2"] = draw(st.integers(2, 4))
        ex["mpi_p3"] = draw(st.integers(2, 5))
        return ex

    def prop(ex):
        n, edges = ex["n"], ex["edges"]
        lines = [(u, v, str(w)) for u, v, w in edges]
        stats["evaluations"] += 1
        # --- plan every launch of this example (valid file, then the same file spoiled), run them concurrently, judge in order
        text = dimacs_text(n, lines, ex["nl"], ex["style"])
        dim, opt = mcb_weight(n, edges)
        stats["classes"]["valid"] = stats["classes"].get("valid", 0) + 1
        if dim >= 2:
            stats["nontrivial"].add(hashlib.sha1(("V" + text + repr(ex["exact"])).encode()).hexdigest())
            stats["classes"]["valid-dimension>=2"] = stats["classes"].get("valid-dimension>=2", 0) + 1
        kinds, extra, pos = ex["spoil"]
        slines = lines[:pos] + extra + lines[pos:]
        stext = dimacs_text(n, slines, ex["nl"], ex["style"])
        stats["classes"]["spoiled-" + "+".join(sorted(kinds))] = stats["classes"].get("spoiled-" + "+".join(sorted(kinds)), 0) + 1
        mpi_opts = (ALGOS[ex["mpi"][1]] + (["--printcycles=true"] if ex["mpi_print"] else [])) if ex["mpi"] else []
        plans = []   # (judge, demo, text, opts, procs, extra)
        for o, par, cores in ex["exact"]:
            plans.append(("valid", "mcb-dimacs", text, o, 0, None))
        ao = ex["approx"][0] + ["--k=%d" % ex["k"]]
        plans.append(("valid", "approx-mcb-dimacs", text, ao, 0, ex["k"]))
        plans.append(("valid", "collection-stats-dimacs", text, [], 0, None))
        if ex["mpi"] and not ex["spoiled"]:
            plans.append(("valid", "mcb-dimacs-mpi", text, mpi_opts, ex["mpi"][0], None))
            stats["classes"]["valid-under-mpi"] = stats["classes"].get("valid-under-mpi", 0) + 1
        plans.append(("spoiled", "mcb-dimacs", stext, ex["exact"][0][0], 0, None))
        plans.append(("spoiled", "approx-mcb-dimacs", stext, ao, 0, None))
        plans.append(("spoiled", "collection-stats-dimacs", stext, [], 0, None))
        if ex["mpi"]:
            for PP in sorted(set([ex["mpi"][0], ex["mpi_p2"], ex["mpi_p3"]])):   # up to three generated process counts per spoiled file
                plans.append(("spoiled", "mcb-dimacs-mpi", stext, mpi_opts, PP, None))
                if PP >= 2:
                    stats["nontrivial"].add(hashlib.sha1(("S" + stext + str(PP) + str(mpi_opts)).encode()).hexdigest())
                    stats["classes"]["spoiled-under-mpi-P>=2"] = stats["classes"].get("spoiled-under-mpi-P>=2", 0) + 1
        results = env.launch_many([(d, t, o, pr) for _, d, t, o, pr, _ in plans])
        printed = set()
        for (judge, d, t, o, pr, extra_k), res in zip(plans, results):
            if judge == "valid":
                w = check_valid(env, d, t, o, pr, opt, k=extra_k, res=res)
                if d in ("mcb-dimacs", "mcb-dimacs-mpi"):
                    printed.add(w)
            else:
                check_spoiled(env, d, t, o, pr, kinds, res=res)
        # "identically for every combination of algorithm and parallelism options": the printed numbers must agree to the
        # 6 significant digits the programs print (each of them was already compared with the optimum above)
        vals = sorted(float(x) for x in printed if x is not None)
        if vals and vals[-1] - vals[0] > 1e-5 * max(abs(vals[-1]), 1e-300):
            raise Violation("C11/mcb-dimacs/valid-serial/weights-differ-across-options", "printed weights %s for one file" % sorted(printed),
                            case_of("mcb-dimacs", text, ex["exact"][0][0], 0))
        lines = slines
        if len(stats["samples"]) < 5 and stats["evaluations"] % 7 == 3:
            stats["samples"].append(dict(file=dimacs_text(n, lines, ex["nl"], ex["style"]), spoiled=ex["spoiled"], options=[o for o, _, _ in ex["exact"]], mpi=ex["mpi"]))
    return example, prop


def make_c20(env, stats):
    @st.composite
    def example(draw):
        n, edges = draw(graphs())
        opts = draw(st.lists(exact_opts(), min_size=2, max_size=4))
        which = draw(st.sampled_from(["mcb-dimacs", "approx-mcb-dimacs"]))
        # a third of the examples run with the process restricted to 1-3 CPUs (the machine's CPU count and TBB's default then differ)
        can_restrict = shutil.which("taskset") is not None and len(os.sched_getaffinity(0)) >= 4 and len(os.sched_getaffinity(0)) == hw_threads()
        aff = draw(st.sampled_from([0, 0, 1, 2, 3])) if can_restrict else 0
        return dict(n=n, edges=edges, opts=opts, demo=which, affinity=aff)

    def prop(ex):
        text = dimacs_text(ex["n"], [(u, v, str(w)) for u, v, w in ex["edges"]])
        path = env.write(text)
        for idx, (o, par, cores) in enumerate(ex["opts"]):
            if ex["affinity"] and idx % 2 == 0:
                # restricted affinity: ask for exactly the machine's CPU count with a parallel algorithm (the count the demos
                # compute themselves for --cores=0; TBB's own default is the size of the affinity mask)
                o = [x for x in o if not x.startswith("--cores=") and not x.startswith("--parallel=")] + ["--parallel=true", "--cores=%d" % hw_threads()]
                par, cores = True, hw_threads()
            oo = o + (["--k=2"] if ex["demo"] == "approx-mcb-dimacs" else [])
            rc, out, err, to, dt = env.launch(ex["demo"], path, oo, affinity=ex["affinity"])
            if ex["affinity"]:
                stats["classes"]["affinity-restricted"] = stats["classes"].get("affinity-restricted", 0) + 1
            stats["evaluations"] += 1
            if to or rc != 0:
                raise Violation("C20/%s/demo-options/run-failed" % ex["demo"], "exit %s timeout=%s stderr=%r" % (rc, to, err[:200]), case_of(ex["demo"], text, oo, 0, ex["affinity"]))
            check_cores_line(out, par, cores, ex["demo"], text, oo, ex["affinity"])
            cls = "parallel+cores" if (par and cores is not None) else ("parallel-no-cores" if par else "sequential")
            stats["classes"][cls] = stats["classes"].get(cls, 0) + 1
            if par and cores is not None and cores >= 1 and cores != hw_threads():
                stats["nontrivial"].add(hashlib.sha1((ex["demo"] + " ".join(oo)).encode()).hexdigest())
                if "--verbose=true" not in oo:
                    stats["classes"]["cores-without-verbose"] = stats["classes"].get("cores-without-verbose", 0) + 1
            if len(stats["samples"]) < 5 and stats["evaluations"] % 11 == 5:
                stats["samples"].append(dict(demo=ex["demo"], options=oo))
    return example, prop


def drive(make, env, n_examples, seed_value):
    stats = dict(evaluations=0, nontrivial=set(), classes={}, samples=[])
    example, prop = make(env, stats)

    @hseed(seed_value)
    @settings(max_examples=n_examples, database=None, deadline=None, derandomize=False, report_multiple_bugs=False,
              suppress_health_check=list(HealthCheck))
    @given(example())
    def test(ex):
        prop(ex)
    violation = None
    try:
        test()
    except Violation as v:
        violation = v
    except BaseException as e:   # Hypothesis may wrap several (or flaky) failures in a group
        found = []

        def walk(x):
            if isinstance(x, Violation):
                found.append(x)
            for y in getattr(x, "exceptions", []) or []:
                walk(y)
            if getattr(x, "__cause__", None) is not None:
                walk(x.__cause__)
            if getattr(x, "__context__", None) is not None and x.__context__ is not x.__cause__:
                walk(x.__context__)
        walk(e)
        if not found:
            raise
        violation = found[0]   # still has to survive 3 confirmations outside Hypothesis before it is reported
    return stats, violation


def case_text(pid, case):
    lines = ["property %s" % pid, "entry %s" % case["demo"], "wtype -", "n 0", "k 1", "ranks %d" % max(1, case["procs"]), "workers 0",
             "x procs %d" % case["procs"], "x affinity %d" % case.get("affinity", 0), "x opts %s" % json.dumps(case["opts"]),
             "x file %s" % json.dumps(case["text"])]
    return "\n".join(lines) + "\n"


def parse_case(text):
    c = dict(procs=0, opts=[], text="", demo="", affinity=0)
    for line in text.splitlines():
        if line.startswith("entry "):
            c["demo"] = line[6:].strip()
        elif line.startswith("x procs "):
            c["procs"] = int(line[8:])
        elif line.startswith("x affinity "):
            c["affinity"] = int(line[11:])
        elif line.startswith("x opts "):
            c["opts"] = json.loads(line[7:])
        elif line.startswith("x file "):
            c["text"] = json.loads(line[7:])
    return c


def replay_case(pid, env, case):
    """re-evaluates one saved case without Hypothesis; returns Violation or None"""
    text = case["text"]
    # reconstruct the graph from the file text
    n = 0
    lines = []
    for l in text.splitlines():
        t = l.split()
        if t and t[0] == "p":
            n = int(t[2])
        elif t and t[0] in ("e", "a"):
            lines.append((int(t[1]) - 1, int(t[2]) - 1, t[3] if len(t) > 3 else "1"))
    loops = any(u == v for u, v, w in lines)
    seen = set()
    multi = False
    for u, v, w in lines:
        k = (min(u, v), max(u, v))
        if k in seen:
            multi = True
        seen.add(k)
    nonpos = any(float(w) <= 0 for u, v, w in lines)
    kinds = [k for k, f in (("loop", loops), ("multi", multi), ("nonpos", nonpos)) if f]
    try:
        if pid == "C20":
            path = env.write(text)
            rc, out, err, to, dt = env.launch(case["demo"], path, case["opts"], affinity=case.get("affinity", 0))
            par = "--parallel=false" not in case["opts"]
            cores = None
            for o in case["opts"]:
                if o.startswith("--cores="):
                    cores = int(o[8:])
            check_cores_line(out, par, cores, case["demo"], text, case["opts"], case.get("affinity", 0))
            return None
        if kinds:
            check_spoiled(env, case["demo"], text, case["opts"], case["procs"], kinds)
        else:
            dim, opt = mcb_weight(n, [(u, v, float(w)) for u, v, w in lines])
            k = None
            for o in case["opts"]:
                if o.startswith("--k="):
                    k = int(o[4:])
            check_valid(env, case["demo"], text, case["opts"], case["procs"], opt, k=k)
    except Violation as v:
        return v
    return None

// C04: MPI entry points for every communicator size and per-rank heap layout.
// Rank 0 drives rapidcheck; every evaluation (also every shrink step and every replay) is broadcast as case text and executed
// collectively by all ranks of the job; a generated size P selects the first P ranks through communicator::split.
#include <parmcb/mpi/parmcb.hpp>
#include <boost/mpi/environment.hpp>
#include <boost/mpi/communicator.hpp>
#include <boost/mpi/collectives.hpp>
#include <tbb/global_control.h>

#include "runner.hpp"
#include "lib.hpp"

using namespace vf;
namespace mpi = boost::mpi;

static int g_maxN = 12;
static mpi::communicator *g_world = nullptr;
static std::string g_progress_path;

static const char *MPI5[] = {"mcb_sva_signed_mpi", "mcb_sva_fvs_trees_mpi", "mcb_sva_fvs_trees_tbb_mpi",
                             "mcb_sva_iso_trees_mpi", "mcb_sva_iso_trees_tbb_mpi"};

struct RankOut {
    int threw = 0;
    long emitted = 0;
    unsigned long long order_hash = 0;
    template <class Ar> void serialize(Ar &ar, const unsigned) { ar & threw & emitted & order_hash; }
};

// Per-rank heap layout: while a graph is being built, allocations of the size of an edge-list node are served from a static
// arena in a rank-specific order (a permutation derived from the case's layout tape and the rank), so that the address order of
// the edge properties - the order of std::set<edge_descriptor> - is an arbitrary, rank-specific permutation, while vertex numbering
// and edge insertion order stay identical on all ranks.
static const std::size_t NODE_BYTES = 40;       // std::list node of list_edge<unsigned long, property<edge_weight_t, W>>
static const std::size_t SLOT_BYTES = 48;
static const std::size_t ARENA_SLOTS = 8192;
alignas(16) static char g_arena[ARENA_SLOTS * SLOT_BYTES];
static std::vector<unsigned> *g_perm = nullptr;  // slot order for the current build
static std::size_t g_perm_next = 0;
static bool g_arena_on = false;

static void arena_begin(const std::vector<unsigned> &layout, int rank, std::size_t need) {
    static std::vector<unsigned> perm;
    uint64_t s = 88172645463325252ULL ^ ((uint64_t) (rank + 1) * 0x9E3779B97F4A7C15ULL);
    for (unsigned x : layout) s = (s ^ x) * 6364136223846793005ULL + 1442695040888963407ULL;
    auto next = [&]() { s = s * 6364136223846793005ULL + 1442695040888963407ULL; return (unsigned) (s >> 33); };
    std::size_t k = std::min(ARENA_SLOTS, need + 8);
    perm.resize(k);
    for (std::size_t i = 0; i < k; i++) perm[i] = (unsigned) i;
    bool identity = layout.empty() || (layout.size() == 1 && layout[0] == 0 && rank == 0);
    if (!identity) for (std::size_t i = k - 1; i > 0; i--) std::swap(perm[i], perm[next() % (i + 1)]);
    g_perm = &perm;
    g_perm_next = 0;
    g_arena_on = true;
}
static void arena_end() { g_arena_on = false; }

void *operator new(std::size_t n) {
    if (g_arena_on && n == NODE_BYTES && g_perm && g_perm_next < g_perm->size()) return g_arena + (std::size_t) (*g_perm)[g_perm_next++] * SLOT_BYTES;
    void *p = std::malloc(n ? n : 1);
    if (!p) throw std::bad_alloc();
    return p;
}
void operator delete(void *p) noexcept {
    if ((char *) p >= g_arena && (char *) p < g_arena + sizeof(g_arena)) return;   // arena slots are recycled per build, never freed
    std::free(p);
}
void operator delete(void *p, std::size_t) noexcept { operator delete(p); }

template <class W>
static Verdict collective_t(const Case &c, mpi::communicator &world) {
    const GraphSpec &s = c.g;
    int P = std::max(1, std::min(c.ranks, world.size()));
    bool in = world.rank() < P;
    mpi::communicator sub = world.split(in ? 0 : 1);
    RankOut mine;
    std::vector<std::vector<int>> cycles_idx;
    bool foreign = false;
    std::string foreign_why, what;
    double returned = 0;
    if (in) {
        arena_begin(c.layout, world.rank(), (std::size_t) s.m() * 2 + 16);
        BG<W> bg(s);
        arena_end();
        {
            std::vector<std::pair<const void *, int>> ord;
            for (int i = 0; i < s.m(); i++) ord.push_back({bg.edges[i].get_property(), i});
            std::sort(ord.begin(), ord.end());
            unsigned long long h = 1469598103934665603ULL;
            for (auto &p : ord) { h ^= (unsigned long long) p.second + 1; h *= 1099511628211ULL; }
            mine.order_hash = h;
        }
        typedef typename BG<W>::Edge Edge;
        std::list<std::list<Edge>> cycles;
        auto wm = bg.wmap();
        try {
            W ret;
            const std::string &e = c.entry;
            if (e == "mcb_sva_signed_mpi") ret = parmcb::mcb_sva_signed_mpi(bg.g, wm, std::back_inserter(cycles), sub);
            else if (e == "mcb_sva_fvs_trees_mpi") ret = parmcb::mcb_sva_fvs_trees_mpi(bg.g, wm, std::back_inserter(cycles), sub);
            else if (e == "mcb_sva_fvs_trees_tbb_mpi") ret = parmcb::mcb_sva_fvs_trees_tbb_mpi(bg.g, wm, std::back_inserter(cycles), sub);
            else if (e == "mcb_sva_iso_trees_mpi") ret = parmcb::mcb_sva_iso_trees_mpi(bg.g, wm, std::back_inserter(cycles), sub);
            else if (e == "mcb_sva_iso_trees_tbb_mpi") ret = parmcb::mcb_sva_iso_trees_tbb_mpi(bg.g, wm, std::back_inserter(cycles), sub);
            else { mine.threw = 1; what = "unknown entry"; ret = 0; }
            returned = (double) ret;
        } catch (const std::exception &ex) {
            mine.threw = 1;
            what = ex.what();
        } catch (...) {
            mine.threw = 1;
            what = "non-std exception";
        }
        mine.emitted = (long) cycles.size();
        if (world.rank() == 0 && !mine.threw) {
            if (!bg.to_indices(cycles, s, cycles_idx, foreign_why)) foreign = true;
        }
    }
    std::vector<RankOut> all;
    mpi::gather(world, mine, all, 0);
    world.barrier();
    if (world.rank() != 0) return Verdict::pass();

    // ---- rank 0 evaluates
    Stats &S = stats();
    int dim = cycle_dim(s);
    bool layouts_differ = false;
    for (int r = 1; r < P; r++) if (all[r].order_hash != all[0].order_hash) layouts_differ = true;
    S.note_case(c, P >= 2 && dim >= 2 && layouts_differ);
    S.cls(c.entry);
    S.cls("P=" + std::to_string(P));
    if (layouts_differ) S.cls("rank-layouts-differ");
    if (P > 1 && dim > 0 && dim % P != 0) S.cls("P-does-not-divide-dimension");
    if (P > s.n) S.cls("P>n");
    if (dim == 0) S.cls("forest");
    std::string icls = std::string(layouts_differ ? "layouts-differ" : "layouts-equal");
    std::string base = "C04/" + c.entry + "/" + icls + "/";
    for (int r = 0; r < P; r++) if (all[r].threw) return Verdict::fail(base + "exception", "rank " + std::to_string(r) + " threw " + (r == 0 ? what : ""));
    for (int r = 1; r < P; r++) if (all[r].emitted != 0) return Verdict::fail(base + "non-root-emitted", "rank " + std::to_string(r) + " emitted " + std::to_string(all[r].emitted) + " cycles");
    if (foreign) return Verdict::fail(base + "foreign-edge", foreign_why);
    std::string msg;
    std::string d = basis_defect(s, cycles_idx, msg);
    if (!d.empty()) return Verdict::fail(base + d, msg);
    auto w = exact_weights(s);
    i128 sum = cycles_weight(cycles_idx, w), ret;
    if (!to_exact(returned, ret) || ret != sum) return Verdict::fail(base + "returned-not-sum", "returned " + std::to_string(returned) + " emitted " + i128_str(sum));
    RefMCB ref = ref_mcb(s);
    if (sum != ref.total) return Verdict::fail(base + "not-minimum", "emitted weight " + i128_str(sum) + " optimum " + i128_str(ref.total) + " (P=" + std::to_string(P) + ")");
    if (cycles_sorted_weights(cycles_idx, w) != ref.sorted_weights) return Verdict::fail(base + "weight-vector-differs", "sorted cycle weights differ");
    return Verdict::pass();
}

static Verdict collective(const Case &c, mpi::communicator &world) {
    if (!in_exact_domain(c.g)) {   // same decision on every rank (pure function of the case)
        if (world.rank() == 0) { stats().note_case(c, false); stats().cls("skipped-outside-exact-domain"); }
        return Verdict::pass();
    }
    if (c.wtype == "int") return collective_t<int>(c, world);
    return collective_t<double>(c, world);
}

static Case gen_c04() {
    Case c;
    c.entry = coin(35) ? MPI5[0] : MPI5[pick(0, 4)];   // the signed variant has the most MPI-specific search logic
    c.wtype = coin(25) ? "int" : "double";
    GenOpts o;
    o.maxN = g_maxN;
    c.g = gen_graph_raw(o, c.wtype == "int" ? WDom::ExactInt : WDom::Exact);
    int ws = g_world->size();
    // communicator size: 1 sometimes, otherwise biased to the large sizes (uneven slices, more ranks than work items)
    c.ranks = coin(10) ? 1 : (coin(45) ? pick(std::max(1, ws - 2), ws) : pick(1, ws));
    int L = pick(1, 6);
    for (int i = 0; i < L; i++) c.layout.push_back((unsigned) pick(0, 1 << 20));
    return c;
}

static Verdict check_c04(const Case &c) {
    // rank 0 only: publish the case, then take part in the collective evaluation
    std::string txt = c.text();
    if (!g_progress_path.empty()) {
        std::ofstream f(g_progress_path, std::ios::trunc);
        f << txt;
    }
    mpi::broadcast(*g_world, txt, 0);
    return collective(c, *g_world);
}

int main(int argc, char **argv) {
    if (getenv("VERIF_MAXN")) g_maxN = atoi(getenv("VERIF_MAXN"));
    mpi::environment env(argc, argv, mpi::threading::multiple);
    mpi::communicator world;
    g_world = &world;
    tbb::global_control gc(tbb::global_control::max_allowed_parallelism, 2);
    int rc = 0;
    if (world.rank() == 0) {
        Args a = parse_args(argc, argv);
        if (!a.stats_path.empty()) g_progress_path = a.stats_path + ".current";
        std::map<std::string, Prop> props;
        props["C04"] = Prop{gen_c04, check_c04};
        rc = run_main(argc, argv, props);
        std::string q = "QUIT";
        mpi::broadcast(world, q, 0);
    } else {
        while (true) {
            std::string txt;
            mpi::broadcast(world, txt, 0);
            if (txt == "QUIT") break;
            Case c;
            std::string err;
            if (!Case::parse(txt, c, err)) break;
            collective(c, world);
        }
    }
    return rc;
}

// shared plumbing of the libFuzzer targets: counters, case dumps, failure reporting
#pragma once
#include "spec.hpp"
#include <sys/stat.h>

namespace vf {
struct FuzzState {
    std::string property;
    long execs = 0;
    std::set<uint64_t> nontrivial;
    std::map<std::string, long> classes;
    std::vector<std::string> samples;
    void dump() {
        const char *p = getenv("VERIF_FUZZ_STATS");
        if (!p) return;
        Stats S;
        S.property = property;
        S.evaluations = execs;
        S.nontrivial = nontrivial;
        S.classes = classes;
        S.samples = samples;
        S.out_path = p;
        S.dump();
    }
    void note(const Case &c, bool nontriv) {
        execs++;
        if (nontriv && nontrivial.insert(fnv1a(c.text())).second && samples.size() < 6 && nontrivial.size() % 499 == 1)
            samples.push_back("fuzz: " + c.brief());
        if ((execs % 50000) == 0) dump();
    }
    // in artifact-replay mode the driver asks for the decoded case before the check runs (a crash would lose it)
    void pre_dump(const Case &c) {
        const char *p = getenv("VERIF_FUZZ_DUMP");
        if (!p) return;
        std::ofstream o(p);
        o << c.text();
    }
    [[noreturn]] void fail(const Case &c, const std::string &key, const std::string &msg) {
        const char *dir = getenv("VERIF_FUZZ_OUT");
        if (dir) {
            mkdir(dir, 0755);
            char nm[64];
            snprintf(nm, sizeof nm, "%016" PRIx64, fnv1a(c.text()));
            std::string path = std::string(dir) + "/" + property + "-fuzz-" + nm + ".case";
            std::ofstream o(path);
            o << "# key " << key << "\n# " << msg << "\n" << c.text();
            o.close();
            fprintf(stderr, "FUZZFAIL %s key=%s\n", path.c_str(), key.c_str());
        }
        dump();
        __builtin_trap();
    }
};
inline FuzzState &fz() { static FuzzState s; return s; }
inline void fz_atexit() { fz().dump(); }
}

// rapidcheck generators for graphs / weights / tapes. Every random choice is a rapidcheck draw.
#pragma once
#include "spec.hpp"
#include <rapidcheck.h>
#include <functional>

namespace vf {

// size-independent integer in [lo,hi]
inline int pick(int lo, int hi) {
    if (hi <= lo) return lo;
    return *rc::gen::resize(100, rc::gen::inRange<int>(lo, hi + 1));
}
inline bool coin(int pct) { return pick(0, 99) < pct; }

enum class WDom { Exact, ExactInt, Inexact, Unit };

struct GenOpts {
    int maxN = 12;
    int maxM = 1000000;
    bool allow_trivial = true;   // n=0, forests ...
    int tie_bias = 60;           // percent of cases using small palettes
    bool sparse_labels = true;   // allow the "sparse labels" decoration (n grows to 65..140 with mostly isolated vertices)
    bool dense_ok = true;
};

// ---- shapes: produce simple edge list on vertices 0..n-1
struct ShapeBuilder {
    int n = 0;
    std::set<std::pair<int, int>> have;
    std::vector<std::array<int, 2>> edges;
    std::vector<double> pref;   // shape-specific preferred weight per edge (0 = none)
    bool add(int u, int v, double w = 0) {
        if (u == v) return false;
        auto p = std::minmax(u, v);
        if (!have.insert(p).second) return false;
        edges.push_back({u, v});
        pref.push_back(w);
        return true;
    }
};

inline void shape_into(ShapeBuilder &sb, int base, int n, int shape) {
    // builds a shape on vertices base..base+n-1
    auto V = [&](int i) { return base + i; };
    if (n <= 0) return;
    switch (shape) {
        case 0: {  // sparse: random tree + few chords
            for (int i = 1; i < n; i++) sb.add(V(i), V(pick(0, i - 1)));
            int chords = pick(0, std::max(1, n / 2));
            for (int c = 0; c < chords; c++) sb.add(V(pick(0, n - 1)), V(pick(0, n - 1)));
            break;
        }
        case 1: {  // G(n,p)
            static const int ps[] = {15, 30, 50, 80, 100};
            int p = ps[pick(0, 4)];
            for (int i = 0; i < n; i++) for (int j = i + 1; j < n; j++) if (coin(p)) sb.add(V(i), V(j));
            break;
        }
        case 2: {  // forest (several random trees)
            for (int i = 1; i < n; i++) if (coin(85)) sb.add(V(i), V(pick(0, i - 1)));
            break;
        }
        case 3: {  // cycle with chords
            if (n >= 3) for (int i = 0; i < n; i++) sb.add(V(i), V((i + 1) % n));
            else if (n == 2) sb.add(V(0), V(1));
            int chords = pick(0, 3);
            for (int c = 0; c < chords; c++) sb.add(V(pick(0, n - 1)), V(pick(0, n - 1)));
            break;
        }
        case 4: {  // wheel
            for (int i = 1; i < n; i++) { sb.add(V(0), V(i)); if (n > 3) sb.add(V(i), V(i % (n - 1) + 1)); }
            break;
        }
        case 5: {  // grid r x c
            int r = std::min(n, std::max(1, pick(1, std::max(1, (int) std::sqrt((double) n) + 1))));
            int c = std::max(1, n / r);
            for (int i = 0; i < r; i++) for (int j = 0; j < c; j++) {
                if (j + 1 < c) sb.add(V(i * c + j), V(i * c + j + 1));
                if (i + 1 < r) sb.add(V(i * c + j), V((i + 1) * c + j));
            }
            break;
        }
        case 6: {  // hypercube
            int d = 0;
            while ((1 << (d + 1)) <= n) d++;
            for (int x = 0; x < (1 << d); x++) for (int b = 0; b < d; b++) if (!(x >> b & 1)) sb.add(V(x), V(x | (1 << b)));
            break;
        }
        case 7: {  // complete bipartite
            int a = pick(1, std::max(1, n - 1));
            for (int i = 0; i < a; i++) for (int j = a; j < n; j++) sb.add(V(i), V(j));
            break;
        }
        case 8: {  // generalized Petersen GP(h, s)
            int h = n / 2;
            if (h >= 3) {
                int s = pick(1, std::max(1, (h - 1) / 2));
                for (int i = 0; i < h; i++) {
                    sb.add(V(i), V((i + 1) % h));
                    sb.add(V(i), V(h + i));
                    sb.add(V(h + i), V(h + (i + s) % h));
                }
            }
            break;
        }
        case 9: {  // ladder / prism
            int h = n / 2;
            bool prism = coin(50);
            for (int i = 0; i < h; i++) {
                sb.add(V(i), V(h + i));
                if (i + 1 < h) { sb.add(V(i), V(i + 1)); sb.add(V(h + i), V(h + i + 1)); }
            }
            if (prism && h >= 3) { sb.add(V(h - 1), V(0)); sb.add(V(2 * h - 1), V(h)); }
            break;
        }
        case 10: {  // theta: parallel paths of equal length between two terminals
            if (n >= 2) {
                int paths = pick(2, 4);
                int inner = std::max(0, (n - 2) / paths);
                int next = 2;
                for (int p = 0; p < paths; p++) {
                    int prev = 0;
                    for (int i = 0; i < inner && next < n; i++) { sb.add(V(prev), V(next)); prev = next++; }
                    sb.add(V(prev), V(1));
                }
            }
            break;
        }
        case 12: {  // two terminals, M similar short routes plus one deviating route: long, light, optionally ending in a heavy edge
            // (weighted distance and hop distance disagree strongly: the tight family for spanner stretch)
            if (n >= 4) {
                int s = 0, t = 1, next = 2;
                int spoke_len = coin(75) ? 2 : 3;
                int dev_len = pick(2, 7);
                int base = pick(1, 10);
                double heavy = coin(50) ? (coin(50) ? 1000.0 : 50.0) : 1.0;
                // deviating route first (takes dev_len-1 inner vertices)
                if (next + dev_len - 1 <= n) {
                    int prev = s;
                    int heavy_at = coin(70) ? dev_len - 1 : pick(0, dev_len - 1);
                    for (int i = 0; i < dev_len; i++) {
                        int to = (i == dev_len - 1) ? t : next++;
                        sb.add(V(prev), V(to), i == heavy_at ? heavy : 1.0);
                        prev = to;
                    }
                }
                while (next + spoke_len - 1 <= n) {
                    int prev = s;
                    for (int i = 0; i < spoke_len; i++) {
                        int to = (i == spoke_len - 1) ? t : next++;
                        if (coin(50)) sb.add(V(prev), V(to), base + pick(0, 1)); else sb.add(V(to), V(prev), base + pick(0, 1));
                        prev = to;
                    }
                }
            }
            break;
        }
        case 13: {  // tree of blocks ("cactus with bridges"): the nodes of a random tree are single vertices or small cycles,
                    // tree edges are bridges between them (feedback-vertex / 2-core structure: hubs joined by bridges to cycles)
            int next = 0;
            std::vector<int> rep;   // one attachment vertex per block
            bool star = coin(35);   // star-like block tree: one hub with many neighbours
            while (next < n) {
                int kind = pick(0, 9);
                int len = (kind < 4) ? 1 : (kind < 8 ? 3 : pick(4, 5));
                if (next + len > n) len = 1;
                int first = next;
                if (len >= 3) for (int i = 0; i < len; i++) sb.add(V(first + i), V(first + (i + 1) % len));
                next += len;
                if (!rep.empty()) {
                    int parent = star ? rep[0] : rep[pick(0, (int) rep.size() - 1)];
                    sb.add(V(parent), V(first + (len > 1 ? pick(0, len - 1) : 0)));
                }
                rep.push_back(first + (len > 1 ? pick(0, len - 1) : 0));
            }
            break;
        }
        case 14: {  // degree-stratified: a few hubs (joined to each other), many anchors each carrying private triangles (one or two:
                    // a bow-tie forces the anchor into every greedy feedback set), hubs adjacent to random subsets of anchors, and
                    // "ear" vertices closing a triangle over two hubs. Greedy order: hubs, then anchors, gadget vertices never -
                    // the chosen set has internal edges and chosen vertices whose whole neighbourhood is chosen.
            int h = pick(2, 4);
            int ears = coin(50) ? pick(1, 2) : 0;
            int tri = coin(80) ? 2 : 1;
            int per = 1 + 2 * tri;
            int a = (n - h - ears) / per;
            if (a < 1) { for (int i = 0; i < n && n >= 3; i++) sb.add(V(i), V((i + 1) % n)); break; }
            if (a > 14 && coin(70)) a = pick(4, 14);
            static const int pp[] = {50, 75, 100};
            int php = pp[pick(0, 2)], pha = pp[pick(0, 2)];
            for (int i = 0; i < h; i++) for (int j = i + 1; j < h; j++) if (coin(php)) sb.add(V(i), V(j));
            int next = h;
            for (int k = 0; k < a; k++) {
                int anchor = next++;
                bool any = false;
                for (int i = 0; i < h; i++) if (coin(pha)) { sb.add(V(i), V(anchor)); any = true; }
                if (!any) sb.add(V(pick(0, h - 1)), V(anchor));
                for (int t = 0; t < tri; t++) {
                    int x = next++, y = next++;
                    sb.add(V(anchor), V(x)); sb.add(V(anchor), V(y)); sb.add(V(x), V(y));
                }
            }
            for (int e = 0; e < ears; e++) {
                int v = next++;
                int i = pick(0, h - 1), j = pick(0, h - 2);
                if (j >= i) j++;
                sb.add(V(v), V(i)); sb.add(V(v), V(j));
            }
            while (next < n) { int v = next++; if (coin(50)) sb.add(V(v), V(pick(0, v - 1))); }
            break;
        }
        case 11: {  // complete graph
            for (int i = 0; i < n; i++) for (int j = i + 1; j < n; j++) sb.add(V(i), V(j));
            break;
        }
        default: break;
    }
}

inline std::vector<double> gen_weights(int m, WDom dom, int tie_bias, bool int_safe) {
    std::vector<double> w(m, 1.0);
    if (dom == WDom::Unit) return w;
    if (dom == WDom::Inexact) {
        int pal = pick(0, 6);
        static const double dec[] = {0.1, 0.2, 0.3, 0.7, 1.1, 0.4};
        double scale = 1.0;
        if (pal == 3) { static const double sc[] = {0.01, 0.1, 1, 10, 100}; scale = sc[pick(0, 4)]; }
        for (int i = 0; i < m; i++) {
            double x;
            switch (pal) {
                case 0: x = dec[pick(0, 5)]; break;
                case 1: x = 0.1 * pick(1, 30); break;
                case 2: x = 0.01 * pick(1, 300); break;
                case 3: x = dec[pick(0, 5)] * scale; break;
                case 4: x = pick(1, 999) / 7.0; break;
                case 6: {  // small integers, some of them off by a relative 1e-9 .. 2e-8: routes that differ by far more than
                           // rounding noise but by little more than the property's 1e-9 tolerance
                    x = (double) pick(1, 4);
                    if (coin(40)) x *= 1.0 + pick(1, 20) * 1e-9;
                    break;
                }
                default: {  // uniformly random doubles in [1e-3,1e3] (log-uniform mantissa mix)
                    double e = pick(-3000, 2999) / 1000.0;
                    x = std::pow(10.0, e);
                    break;
                }
            }
            if (x < 1e-3) x = 1e-3;
            if (x > 1e3) x = 1e3;
            w[i] = x;
        }
        return w;
    }
    // exact domain
    int pal;
    if (coin(tie_bias)) pal = pick(0, 3) == 3 ? 8 : pick(0, 2);
    else if (int_safe) { static const int ip[] = {3, 4, 5, 11, 11}; pal = ip[pick(0, 4)]; }
    else { static const int dp[] = {3, 4, 5, 6, 7, 9, 9, 10, 10, 11, 11}; pal = dp[pick(0, 10)]; }
    if (!int_safe && pal <= 2 && coin(8)) pal = 9;   // tie-heavy and tiny at once
    if (pal == 10 && m > 64) pal = 9;                // the fine-grained palette is only exactly summable on small graphs
    if (pal == 10 && m <= 12 && coin(50)) pal = 12;  // relative granularity 2^-47: only tiny graphs keep every sum exact
    for (int i = 0; i < m; i++) {
        double x = 1;
        switch (pal) {
            case 0: x = 1; break;
            case 1: x = pick(1, 2); break;
            case 2: x = pick(1, 3); break;
            case 3: x = pick(1, 10); break;
            case 4: x = pick(1, 1000); break;
            case 5: x = (double) (1 << pick(0, 10)); break;
            case 6: x = std::ldexp((double) pick(1, 4096), -pick(0, 10)); break;  // dyadic
            case 7: x = (double) pick(1, 1 << 30); break;
            case 8: x = pick(1, 4); break;
            case 11: { static const int fib[] = {1, 2, 3, 5, 8, 13, 21, 34, 55}; x = fib[pick(0, 8)]; break; }   // wide range, few ties, many equal sums
            case 12: x = std::ldexp((double) pick(1, 2), -2) + std::ldexp((double) pick(0, 3), -48); break;   // {1/4,1/2} + j*2^-48
            case 9: x = std::ldexp((double) pick(1, 3), -60); break;                        // uniformly tiny, still exactly summable
            case 10: x = std::ldexp((double) pick(1, 2), -16) + std::ldexp((double) pick(0, 3), -52); break;  // differences of one ulp of 1.0; all sums stay < 1 and exact (m <= 64)
        }
        w[i] = x;
    }
    return w;
}

// apply permutation of vertices and of edge insertion order; both are draws
inline void permute_spec(GraphSpec &g) {
    int n = g.n, m = g.m();
    std::vector<int> vp(n);
    for (int i = 0; i < n; i++) vp[i] = i;
    for (int i = n - 1; i > 0; i--) std::swap(vp[i], vp[pick(0, i)]);
    std::vector<int> ep(m);
    for (int i = 0; i < m; i++) ep[i] = i;
    for (int i = m - 1; i > 0; i--) std::swap(ep[i], ep[pick(0, i)]);
    GraphSpec h;
    h.n = n;
    for (int i = 0; i < m; i++) {
        auto e = g.edges[ep[i]];
        int a = vp[e[0]], b = vp[e[1]];
        if (coin(50)) std::swap(a, b);
        h.edges.push_back({a, b});
        h.w.push_back(g.w[ep[i]]);
    }
    g = h;
}

// decoration "sparse labels": put a small graph onto vertex labels spread over 65..140 vertices, with labels biased to collide
// modulo 32 / 64 (index arithmetic: bit masks, word offsets); the other vertices stay isolated or form one pendant path
inline void sparse_relabel(GraphSpec &g) {
    int N = pick(65, 140);
    std::set<int> used;
    std::vector<int> lab(g.n);
    int base = pick(0, 31);
    for (int v = 0; v < g.n; v++) {
        int l = -1;
        for (int tries = 0; tries < 50 && l < 0; tries++) {
            int c;
            if (coin(50)) c = (base + pick(0, 2)) % 32 + 32 * pick(0, (N - 1) / 32);
            else c = pick(0, N - 1);
            if (c < N && !used.count(c)) l = c;
        }
        if (l < 0) for (int c = 0; c < N; c++) if (!used.count(c)) { l = c; break; }
        used.insert(l);
        lab[v] = l;
    }
    for (auto &e : g.edges) { e[0] = lab[e[0]]; e[1] = lab[e[1]]; }
    g.n = N;
    if (coin(30)) {   // one pendant path through some of the filler vertices (at most 24), hanging off a core vertex
        double w = g.w.empty() ? 1.0 : g.w[0];
        int prev = lab[0], cnt = 0, stride = pick(1, 5);
        for (int c = pick(0, 40); c < N && cnt < 24; c += stride) if (!used.count(c)) { g.edges.push_back({prev, c}); g.w.push_back(w); prev = c; cnt++; }
    }
}

// profile "gnp-wide" (env VERIF_PROFILE): moderate-size random graphs G(n,p) with wide, tie-poor integer weights -
// the class in which pruning limits, hidden-edge bookkeeping and sorted-candidate shortcuts of the exact algorithms matter
inline GraphSpec gen_gnp_wide(const GenOpts &o, WDom dom) {
    GraphSpec g;
    int lo = std::min(o.maxN, std::max(6, o.maxN / 2));
    g.n = pick(lo, o.maxN);
    static const int ps[] = {12, 20, 30, 45, 60};
    int p = ps[pick(0, 4)];
    for (int i = 0; i < g.n; i++) for (int j = i + 1; j < g.n; j++) if (coin(p) && g.m() < o.maxM) {
        if (coin(50)) g.edges.push_back({i, j}); else g.edges.push_back({j, i});
    }
    int wmax = coin(50) ? 100 : (coin(50) ? 1000 : 20);
    for (int i = 0; i < g.m(); i++) g.w.push_back((double) pick(1, wmax));
    (void) dom;
    if (coin(70)) permute_spec(g);
    return g;
}

// profile "dense": near-complete graphs of moderate size with small non-uniform weights (thousands of candidate cycles,
// supports with dozens of entries)
inline GraphSpec gen_dense(const GenOpts &o, WDom dom) {
    GraphSpec g;
    g.n = pick(std::max(4, o.maxN * 2 / 3), o.maxN);
    static const int ps[] = {70, 85, 100};
    int p = ps[pick(0, 2)];
    for (int i = 0; i < g.n; i++) for (int j = i + 1; j < g.n; j++) if (coin(p) && g.m() < o.maxM) g.edges.push_back({i, j});
    int wmax = coin(30) ? 1 : (coin(50) ? 5 : 40);
    for (int i = 0; i < g.m(); i++) g.w.push_back((double) pick(1, wmax));
    (void) dom;
    if (coin(50)) permute_spec(g);
    return g;
}

inline GraphSpec gen_graph_raw(const GenOpts &o, WDom dom) {
    {
        static const char *prof = getenv("VERIF_PROFILE");
        if (prof && (dom == WDom::Exact || dom == WDom::ExactInt)) {
            if (std::string(prof) == "gnp-wide") return gen_gnp_wide(o, dom);
            if (std::string(prof) == "dense") return gen_dense(o, dom);
        }
    }
    ShapeBuilder sb;
    int total_n;
    {
        if (o.allow_trivial && coin(4)) total_n = pick(0, 2);
        else {
            int lo = std::min(3, o.maxN);
            int a = pick(lo, o.maxN), b = pick(lo, o.maxN);
            total_n = coin(25) ? std::min(a, b) : a;
        }
    }
    int parts = coin(25) ? pick(2, 4) : 1;
    int base = 0;
    for (int p = 0; p < parts; p++) {
        int remaining = total_n - base;
        if (remaining <= 0) break;
        int np = (p == parts - 1) ? remaining : pick(0, remaining);
        static const int shape_tab[] = {0, 0, 0, 1, 1, 1, 1, 1, 2, 3, 3, 4, 4, 5, 5, 5, 6, 6, 7, 7, 8, 8, 9, 10, 10, 11, 11, 12, 12, 12, 13, 13, 13, 14, 14, 14};
        int shape = shape_tab[pick(0, (int) (sizeof shape_tab / sizeof shape_tab[0]) - 1)];
        if (!o.dense_ok && (shape == 11)) shape = 0;
        shape_into(sb, base, np, shape);
        for (auto &e : sb.edges) if (e[0] >= base + np || e[1] >= base + np || e[0] < 0 || e[1] < 0) { fprintf(stderr, "generator bug: shape %d n=%d\n", shape, np); abort(); }
        // occasional bridge to previous block
        if (p > 0 && np > 0 && base > 0 && coin(40)) sb.add(pick(0, base - 1), base + pick(0, np - 1));
        base += np;
    }
    // decorations: pendant trees on extra vertices (counted inside total_n already? no: add a few extra)
    int extra = 0;
    if (coin(25) && total_n > 0) {
        extra = pick(1, 4);
        for (int i = 0; i < extra; i++) {
            int v = total_n + i;
            if (coin(80)) sb.add(v, pick(0, v - 1));   // pendant; else isolated vertex
        }
    }
    // most forests get chords: forests are a class we want, but not the dominant one
    {
        int nn = total_n + extra;
        std::vector<int> par(nn);
        for (int i = 0; i < nn; i++) par[i] = i;
        std::function<int(int)> fnd = [&](int x) { return par[x] == x ? x : par[x] = fnd(par[x]); };
        bool forest = true;
        for (auto &e : sb.edges) { int a = fnd(e[0]), b = fnd(e[1]); if (a == b) { forest = false; break; } par[a] = b; }
        if (forest && nn >= 3 && !coin(12)) {
            int tries = pick(1, nn + 2);
            for (int t = 0; t < tries; t++) sb.add(pick(0, nn - 1), pick(0, nn - 1));
        }
    }
    GraphSpec g;
    g.n = total_n + extra;
    g.edges = sb.edges;
    if ((int) g.edges.size() > o.maxM) g.edges.resize(o.maxM);
    bool int_safe = (dom == WDom::ExactInt);
    g.w = gen_weights(g.m(), int_safe ? WDom::Exact : dom, o.tie_bias, int_safe);
    if ((dom == WDom::Exact || dom == WDom::ExactInt) && coin(70)) {
        bool small_scale = false;   // tiny / fine-grained palettes must not be mixed with weights of magnitude 1..1000
        for (double w : g.w) if (w < 0.001 || w != std::floor(w * 1024) / 1024) small_scale = true;
        if (!small_scale)
            for (int i = 0; i < g.m(); i++) if (sb.pref[i] > 0) g.w[i] = sb.pref[i];   // shape-specific weights where the shape defines them
    }
    if (coin(60)) permute_spec(g);
    if (o.sparse_labels && g.n >= 3 && g.n <= 14 && coin(7)) sparse_relabel(g);
    return g;
}

inline rc::Gen<GraphSpec> gen_graph(GenOpts o, WDom dom) {
    return rc::gen::exec([=]() { return gen_graph_raw(o, dom); });
}

inline std::vector<unsigned> gen_tape(int maxlen) {
    int len = pick(0, maxlen);
    std::vector<unsigned> t(len);
    for (int i = 0; i < len; i++) t[i] = coin(30) ? 0u : (unsigned) pick(0, 1 << 16);
    return t;
}

} // namespace vf

namespace rc {
template <>
struct Arbitrary<vf::GraphSpec> {
    static Gen<vf::GraphSpec> arbitrary() { return vf::gen_graph(vf::GenOpts(), vf::WDom::Exact); }
};
inline void showValue(const vf::GraphSpec &g, std::ostream &os) {
    os << "n=" << g.n << " m=" << g.m();
}
inline void showValue(const vf::Case &c, std::ostream &os) { os << c.brief(); }
}

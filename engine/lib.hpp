// Adaptor between GraphSpec and the library's Boost graphs; generic basis checks shared by harnesses.
#pragma once
#include "spec.hpp"
#include "oracle.hpp"

#include <boost/graph/adjacency_list.hpp>
#include <list>

namespace vf {

template <class W>
struct BG {
    typedef boost::adjacency_list<boost::vecS, boost::vecS, boost::undirectedS, boost::no_property,
                                  boost::property<boost::edge_weight_t, W>> graph_t;
    typedef typename boost::graph_traits<graph_t>::edge_descriptor Edge;
    typedef typename boost::graph_traits<graph_t>::vertex_descriptor Vertex;
    typedef typename boost::property_map<graph_t, boost::edge_weight_t>::type WeightMap;

    graph_t g;
    std::vector<Edge> edges;             // by spec index
    std::map<const void *, int> by_prop;  // property address -> spec index

    explicit BG(const GraphSpec &s) {
        for (int i = 0; i < s.n; i++) boost::add_vertex(g);
        WeightMap wm = boost::get(boost::edge_weight, g);
        for (int i = 0; i < s.m(); i++) {
            Edge e = boost::add_edge(s.edges[i][0], s.edges[i][1], g).first;
            wm[e] = (W) s.w[i];
            edges.push_back(e);
        }
        // property addresses are stable (std::list nodes)
        for (int i = 0; i < s.m(); i++) by_prop[edges[i].get_property()] = i;
    }
    WeightMap wmap() { return boost::get(boost::edge_weight, g); }

    // translate a returned descriptor to the spec index, -1 if it is not an edge of this graph
    int index_of(const Edge &e, const GraphSpec &s) const {
        auto it = by_prop.find(e.get_property());
        if (it == by_prop.end()) return -1;
        int i = it->second;
        int a = (int) e.m_source, b = (int) e.m_target;
        if (!((a == s.edges[i][0] && b == s.edges[i][1]) || (a == s.edges[i][1] && b == s.edges[i][0]))) return -1;
        return i;
    }
    bool to_indices(const std::list<std::list<Edge>> &cycles, const GraphSpec &s, std::vector<std::vector<int>> &out,
                    std::string &why) const {
        out.clear();
        for (auto &c : cycles) {
            std::vector<int> v;
            for (auto &e : c) {
                int i = index_of(e, s);
                if (i < 0) { why = "edge descriptor is not an edge of the caller's graph"; return false; }
                v.push_back(i);
            }
            out.push_back(v);
        }
        return true;
    }
};

// exact-domain precondition of the properties: every path / cycle / basis sum must be exactly representable in a double.
// Sufficient test: all weights are positive multiples of their common lowest set bit L; every path / cycle sum is a multiple
// of L below the total T, and a basis total is below T*dim: so T*max(1,dim)*slack/L < 2^52 (slack 2: approximate bases).
inline bool in_exact_domain(const GraphSpec &g) {
    if (g.w.empty()) return true;
    double tot = 0, lowest = 1e300;
    for (double w : g.w) {
        i128 x;
        if (!(w > 0) || !to_exact(w, x)) return false;
        tot += w;
        int e;
        std::frexp(w, &e);
        double step = std::ldexp(1.0, e - 53);
        while (std::fmod(w, step * 2) == 0 && step < w) step *= 2;   // value of the lowest set bit
        lowest = std::min(lowest, step);
    }
    int dim = cycle_dim(g);
    return tot * (double) std::max(1, dim) * 2.0 / lowest < std::ldexp(1.0, 52);
}

// input class helpers -----------------------------------------------------------------
inline bool has_weight_ties(const GraphSpec &g) {
    std::set<double> s(g.w.begin(), g.w.end());
    return (int) s.size() < g.m();
}

// C01 style validity: count, simple cycles, independence.  Returns "" or clause name (+msg).
inline std::string basis_defect(const GraphSpec &s, const std::vector<std::vector<int>> &cycles, std::string &msg) {
    int dim = cycle_dim(s);
    if ((int) cycles.size() != dim) {
        msg = "emitted " + std::to_string(cycles.size()) + " cycles, expected m-n+c=" + std::to_string(dim);
        return "wrong-count";
    }
    for (size_t i = 0; i < cycles.size(); i++) {
        std::string d = simple_cycle_defect(s, cycles[i]);
        if (!d.empty()) { msg = "cycle #" + std::to_string(i) + ": " + d; return "not-simple-cycle"; }
    }
    int r = gf2_rank(s.m(), cycles);
    if (r != dim) { msg = "GF(2) rank " + std::to_string(r) + " < " + std::to_string(dim); return "dependent"; }
    return "";
}

inline i128 cycles_weight(const std::vector<std::vector<int>> &cycles, const std::vector<i128> &w) {
    i128 t = 0;
    for (auto &c : cycles) for (int e : c) t += w[e];
    return t;
}
inline std::vector<i128> cycles_sorted_weights(const std::vector<std::vector<int>> &cycles, const std::vector<i128> &w) {
    std::vector<i128> v;
    for (auto &c : cycles) { i128 t = 0; for (int e : c) t += w[e]; v.push_back(t); }
    std::sort(v.begin(), v.end());
    return v;
}

} // namespace vf

// C12 (shortest path trees), C13 (greedy_fvs), C14 (candidate collections), C16 (ForestIndex)
#include <parmcb/parmcb.hpp>
#include <parmcb/detail/cycles.hpp>
#include <parmcb/detail/fvs.hpp>
#include <parmcb/forestindex.hpp>

#include "runner.hpp"
#include "lib.hpp"

using namespace vf;

static int g_maxM = 1000000;
static int g_maxN = 12;

static Verdict F(const std::string &key, const std::string &msg) { return Verdict::fail(key, msg); }

// =============================================================================== C16
static Case gen_c16() {
    Case c;
    c.entry = "ForestIndex";
    GenOpts o;
    o.maxN = g_maxN;
    o.maxM = g_maxM;
    c.g = gen_graph_raw(o, WDom::Unit);
    return c;
}
static Verdict check_c16(const Case &c) {
    Stats &S = stats();
    const GraphSpec &s = c.g;
    int comps = num_components(s), dim = cycle_dim(s), m = s.m();
    S.note_case(c, comps >= 2 && dim >= 1);
    if (s.n == 0) S.cls("empty-graph");
    else if (m == 0) S.cls("edgeless");
    else if (dim == 0) S.cls("forest");
    else S.cls(comps >= 2 ? "cyclic-multi-component" : "cyclic-connected");
    std::string base = "C16/ForestIndex/simple/";
    BG<double> bg(s);
    try {
        parmcb::ForestIndex<BG<double>::graph_t> fi(bg.g);
        if ((int) fi.weak_connected_components() != comps)
            return F(base + "components", "reported " + std::to_string(fi.weak_connected_components()) + " expected " + std::to_string(comps));
        if ((long) fi.cycle_space_dimension() != (long) dim)
            return F(base + "dimension", "reported " + std::to_string(fi.cycle_space_dimension()) + " expected " + std::to_string(dim));
        std::vector<int> seen(m, 0);
        std::vector<std::vector<int>> forest_edges(1);
        UnionFind uf(s.n);
        int forest_count = 0;
        for (int i = 0; i < m; i++) {
            std::size_t idx = fi(bg.edges[i]);
            if (idx >= (std::size_t) m) return F(base + "index-range", "edge " + std::to_string(i) + " -> " + std::to_string(idx));
            if (seen[idx]++) return F(base + "not-injective", "index " + std::to_string(idx) + " used twice");
            auto back = fi(idx);
            if (bg.index_of(back, s) != i) return F(base + "not-inverse", "fi(fi(e)) != e for edge " + std::to_string(i));
            bool on = fi.is_on_forest(bg.edges[i]);
            if (on != (idx >= (std::size_t) dim)) return F(base + "forest-flag", "is_on_forest disagrees with index for edge " + std::to_string(i));
            if (on) {
                forest_count++;
                if (!uf.unite(s.edges[i][0], s.edges[i][1])) return F(base + "forest-has-cycle", "on-forest edges contain a cycle");
            }
        }
        for (int i = 0; i < m; i++) {
            int j = bg.index_of(fi((std::size_t) i), s);
            if (j < 0) return F(base + "reverse-foreign", "fi(i) is not an edge of the graph");
            if (fi(bg.edges[j]) != (std::size_t) i) return F(base + "not-inverse", "fi(fi(i)) != i for " + std::to_string(i));
        }
        if (forest_count != s.n - comps) return F(base + "forest-size", "forest has " + std::to_string(forest_count) + " edges, expected n-c=" + std::to_string(s.n - comps));
        // copies and assignments (also over an index of a different graph) must answer every query like the original
        GraphSpec tri;
        tri.n = 4;
        tri.edges = {{0, 1}, {1, 2}, {2, 0}, {0, 3}, {1, 3}};
        tri.w = {1, 1, 1, 1, 1};
        BG<double> other(tri);
        parmcb::ForestIndex<BG<double>::graph_t> fj(fi);
        parmcb::ForestIndex<BG<double>::graph_t> fk(other.g);
        fk = fj;
        parmcb::ForestIndex<BG<double>::graph_t> fl(bg.g);
        fl = fl;   // self assignment
        const parmcb::ForestIndex<BG<double>::graph_t> *copies[] = {&fj, &fk, &fl};
        const char *cname[] = {"copy-constructed", "assigned-over-other-graph", "self-assigned"};
        for (int k = 0; k < 3; k++) {
            const auto &fc = *copies[k];
            if (fc.cycle_space_dimension() != fi.cycle_space_dimension() || fc.weak_connected_components() != fi.weak_connected_components())
                return F(base + "copy", std::string(cname[k]) + " index reports dimension " + std::to_string(fc.cycle_space_dimension()) + " / components " + std::to_string(fc.weak_connected_components()));
            for (int i = 0; i < m; i++) {
                if (fc(bg.edges[i]) != fi(bg.edges[i])) return F(base + "copy", std::string(cname[k]) + " index changes edge numbers");
                if (fc.is_on_forest(bg.edges[i]) != fi.is_on_forest(bg.edges[i])) return F(base + "copy", std::string(cname[k]) + " index changes is_on_forest");
                if (bg.index_of(fc((std::size_t) i), s) != bg.index_of(fi((std::size_t) i), s)) return F(base + "copy", std::string(cname[k]) + " index changes the reverse lookup");
            }
        }
    } catch (const std::exception &e) {
        return F(base + "exception", e.what());
    }
    return Verdict::pass();
}

// =============================================================================== C13
static Case gen_c13() {
    Case c;
    c.entry = "greedy_fvs";
    GenOpts o;
    o.maxN = g_maxN;
    o.maxM = g_maxM;
    c.g = gen_graph_raw(o, WDom::Unit);
    // extra pendant trees (repeated clean-up)
    if (c.g.n > 0 && coin(60)) {
        int extra = pick(1, 6);
        for (int i = 0; i < extra; i++) {
            int v = c.g.n++;
            c.g.edges.push_back({v, pick(0, v - 1)});
            c.g.w.push_back(1);
        }
        if (coin(50)) permute_spec(c.g);
    }
    return c;
}
static bool is_forest_without(const GraphSpec &s, const std::vector<bool> &removed) {
    UnionFind uf(s.n);
    for (auto &e : s.edges) {
        if (removed[e[0]] || removed[e[1]]) continue;
        if (!uf.unite(e[0], e[1])) return false;
    }
    return true;
}
static Verdict check_c13(const Case &c) {
    Stats &S = stats();
    const GraphSpec &s = c.g;
    int dim = cycle_dim(s);
    std::string base = "C13/greedy_fvs/simple/";
    BG<double> bg(s);
    std::vector<BG<double>::Vertex> out;
    try {
        parmcb::greedy_fvs(bg.g, std::back_inserter(out));
    } catch (const std::exception &e) {
        S.note_case(c, false);
        return F(base + "exception", e.what());
    }
    // non-triviality: cleanup after a chosen vertex removes something (oracle's own simulation on the emitted order)
    bool cleanup_after_pick = false;
    {
        std::vector<std::vector<int>> adj(s.n);
        for (auto &e : s.edges) { adj[e[0]].push_back(e[1]); adj[e[1]].push_back(e[0]); }
        std::vector<int> deg(s.n);
        std::vector<bool> alive(s.n, true);
        for (int v = 0; v < s.n; v++) deg[v] = (int) adj[v].size();
        auto prune = [&]() {
            int removed = 0;
            bool ch = true;
            while (ch) {
                ch = false;
                for (int v = 0; v < s.n; v++) if (alive[v] && deg[v] <= 1) {
                    alive[v] = false; removed++; ch = true;
                    for (int u : adj[v]) if (alive[u]) deg[u]--;
                }
            }
            return removed;
        };
        prune();
        for (auto v : out) {
            if (v >= (std::size_t) s.n || !alive[v]) continue;
            alive[v] = false;
            for (int u : adj[v]) if (alive[u]) deg[u]--;
            if (prune() > 0) cleanup_after_pick = true;
        }
    }
    S.note_case(c, dim >= 1 && cleanup_after_pick);
    if (dim == 0) S.cls("forest"); else S.cls("cyclic");
    if (cleanup_after_pick) S.cls("cleanup-after-pick");
    S.cls("fvs-size-" + std::to_string(std::min<size_t>(out.size(), 6)));
    std::vector<bool> removed(s.n, false);
    for (auto v : out) {
        if (v >= (std::size_t) s.n) return F(base + "not-a-vertex", "emitted " + std::to_string(v) + " with n=" + std::to_string(s.n));
        if (removed[v]) return F(base + "duplicate", "vertex " + std::to_string(v) + " emitted twice");
        removed[v] = true;
    }
    {   // structure of the chosen set (classes only): internal edges, chosen vertices whose whole neighbourhood is chosen, a cycle inside the set
        bool internal = false;
        std::vector<int> outside(s.n, 0), degv(s.n, 0);
        UnionFind ufc(s.n);
        bool inner_cycle = false;
        for (auto &e : s.edges) {
            degv[e[0]]++; degv[e[1]]++;
            if (removed[e[0]] && removed[e[1]]) { internal = true; if (!ufc.unite(e[0], e[1])) inner_cycle = true; }
            if (!removed[e[1]]) outside[e[0]]++;
            if (!removed[e[0]]) outside[e[1]]++;
        }
        bool closed = false, one_out = false;
        for (int v = 0; v < s.n; v++) if (removed[v] && degv[v] >= 2) { if (outside[v] == 0) closed = true; if (outside[v] == 1) one_out = true; }
        if (internal) S.cls("chosen-set-has-internal-edge");
        if (closed) S.cls("chosen-vertex-with-all-neighbours-chosen");
        if (one_out) S.cls("chosen-vertex-with-one-unchosen-neighbour");
        if (inner_cycle) S.cls("chosen-set-induces-a-cycle");
    }
    if (dim == 0 && !out.empty()) return F(base + "forest-nonempty", "forest input but " + std::to_string(out.size()) + " vertices emitted");
    if (!is_forest_without(s, removed)) return F(base + "not-feedback", "removing the emitted vertices leaves a cycle");
    return Verdict::pass();
}

// =============================================================================== C12
typedef BG<double> BGd;
typedef BG<int> BGi;

static Case gen_c12() {
    Case c;
    c.entry = "SPTree";
    c.wtype = coin(30) ? "int" : "double";
    GenOpts o;
    o.maxN = g_maxN;
    o.maxM = g_maxM;
    o.tie_bias = 80;
    c.g = gen_graph_raw(o, c.wtype == "int" ? WDom::ExactInt : WDom::Exact);
    return c;
}

template <class W>
static Verdict check_c12_t(const Case &c) {
    if (!in_exact_domain(c.g)) { stats().note_case(c, false); stats().cls("skipped-outside-exact-domain"); return Verdict::pass(); }
    typedef BG<W> B;
    typedef typename B::graph_t G;
    typedef typename B::WeightMap WM;
    Stats &S = stats();
    const GraphSpec &s = c.g;
    APSP ap = apsp(s);
    auto w = exact_weights(s);
    bool multi = false;
    for (int u = 0; u < s.n && !multi; u++) for (int v = 0; v < s.n; v++) if (ap.cnt[u][v] >= 2) { multi = true; break; }
    S.note_case(c, multi);
    S.cls(std::string("wtype-") + c.wtype);
    if (multi) S.cls("has-tied-shortest-paths");
    std::string base = "C12/SPTree/exact-" + c.wtype + "/";
    B bg(s);
    WM wm = bg.wmap();
    auto index_map = boost::get(boost::vertex_index, bg.g);
    std::vector<parmcb::SPTree<G, WM>> trees;
    trees.reserve(s.n);
    try {
        for (int v = 0; v < s.n; v++) trees.emplace_back((std::size_t) v, bg.g, index_map, wm, (typename B::Vertex) v);
    } catch (const std::exception &e) {
        return F(base + "exception", e.what());
    }
    int n = s.n;
    // path[u][v] = edge indices of T_u path from v up to u (v-side first); valid only if reachable
    std::vector<std::vector<std::vector<int>>> path(n, std::vector<std::vector<int>>(n));
    std::vector<std::vector<std::vector<int>>> pathv(n, std::vector<std::vector<int>>(n));
    for (int r = 0; r < n; r++) {
        auto &T = trees[r];
        if ((int) T.source() != r) return F(base + "source", "source() wrong");
        for (int v = 0; v < n; v++) {
            auto nd = T.node(v);
            bool reach = ap.d[r][v] < APSP::inf();
            if ((nd != nullptr) != reach) return F(base + "reachability", "tree " + std::to_string(r) + " vertex " + std::to_string(v) + (reach ? " reachable but no node" : " unreachable but has node"));
            if (!reach) continue;
            if ((int) nd->vertex() != v) return F(base + "node-vertex", "node(v)->vertex() != v");
            i128 dv;
            if (!to_exact((double) nd->weight(), dv) || dv != ap.d[r][v])
                return F(base + "distance", "tree " + std::to_string(r) + " vertex " + std::to_string(v) + " weight " + std::to_string((double) nd->weight()) + " true " + i128_str(ap.d[r][v]));
            if (v == r) {
                if (nd->has_pred()) return F(base + "root-has-pred", "root has a predecessor");
                if ((int) T.first(v) != r) return F(base + "first-root", "first(root) != root");
                continue;
            }
            // walk to root
            int cur = v, steps = 0, child_of_root = -1;
            while (cur != r) {
                auto cn = T.node(cur);
                if (cn == nullptr || !cn->has_pred()) return F(base + "pred-chain", "pred chain from " + std::to_string(v) + " breaks at " + std::to_string(cur));
                int ei = bg.index_of(cn->pred(), s);
                if (ei < 0) return F(base + "pred-foreign", "pred edge is not an edge of the graph");
                int a = s.edges[ei][0], b = s.edges[ei][1];
                if (a != cur && b != cur) return F(base + "pred-not-incident", "pred edge of " + std::to_string(cur) + " not incident to it");
                int p = (a == cur) ? b : a;
                if (!(ap.d[r][p] < APSP::inf()) || ap.d[r][p] + w[ei] != ap.d[r][cur])
                    return F(base + "pred-not-tight", "pred edge of " + std::to_string(cur) + " in tree " + std::to_string(r) + " is not on a shortest path");
                path[r][v].push_back(ei);
                pathv[r][v].push_back(cur);
                if (p == r) child_of_root = cur;
                cur = p;
                if (++steps > n) return F(base + "pred-cycle", "pred chain does not reach the root");
            }
            pathv[r][v].push_back(r);
            if ((int) T.first(v) != child_of_root)
                return F(base + "first", "tree " + std::to_string(r) + ": first(" + std::to_string(v) + ")=" + std::to_string(T.first(v)) + " but path leaves root through " + std::to_string(child_of_root));
        }
    }
    // consistency across trees
    for (int u = 0; u < n; u++) for (int v = 0; v < n; v++) {
        if (u == v || !(ap.d[u][v] < APSP::inf())) continue;
        // T_u path (stored v..u) reversed must equal T_v path (stored u..v)
        std::vector<int> a = path[u][v];
        std::reverse(a.begin(), a.end());
        if (a != path[v][u])
            return F(base + "not-symmetric", "path " + std::to_string(u) + "->" + std::to_string(v) + " differs from reverse of " + std::to_string(v) + "->" + std::to_string(u));
        // sub-path: for every x on T_u path to v, T_x path to v equals the part between x and v
        const auto &pv = pathv[u][v];   // v ... u
        for (size_t i = 1; i + 1 < pv.size(); i++) {
            int x = pv[i];
            std::vector<int> sub(path[u][v].begin(), path[u][v].begin() + i);
            if (sub != path[x][v])
                return F(base + "subpath", "sub-path " + std::to_string(x) + "->" + std::to_string(v) + " of chosen path " + std::to_string(u) + "->" + std::to_string(v) + " is not the chosen path between its endpoints");
        }
    }
    return Verdict::pass();
}
static Verdict check_c12(const Case &c) { return c.wtype == "int" ? check_c12_t<int>(c) : check_c12_t<double>(c); }

// =============================================================================== C14
static Case gen_c14() {
    Case c;
    c.entry = "collections";
    c.wtype = coin(30) ? "int" : "double";
    GenOpts o;
    o.maxN = g_maxN;
    o.maxM = g_maxM;
    c.g = gen_graph_raw(o, c.wtype == "int" ? WDom::ExactInt : WDom::Exact);
    return c;
}

struct Cand { int root; int e; std::vector<int> cyc; i128 w; };

template <class W, class Builder>
static Verdict collect(const Case &c, const char *name, BG<W> &bg, std::vector<Cand> &out) {
    typedef typename BG<W>::graph_t G;
    typedef typename BG<W>::WeightMap WM;
    const GraphSpec &s = c.g;
    std::string base = std::string("C14/") + name + "/exact-" + c.wtype + "/";
    auto w = exact_weights(s);
    WM wm = bg.wmap();
    std::vector<parmcb::SPTree<G, WM>> trees;
    std::vector<parmcb::CandidateCycle<G, WM>> cycles;
    try {
        Builder b;
        b(bg.g, wm, trees, cycles);
    } catch (const std::exception &e) {
        return F(base + "exception", e.what());
    }
    for (auto &cc : cycles) {
        if (cc.tree() >= trees.size()) return F(base + "tree-index", "candidate refers to tree " + std::to_string(cc.tree()));
        auto &T = trees[cc.tree()];
        int root = (int) T.source();
        int e = bg.index_of(cc.edge(), s);
        if (e < 0) return F(base + "foreign-edge", "candidate edge not in graph");
        Cand cd;
        cd.root = root;
        cd.e = e;
        cd.cyc.push_back(e);
        std::vector<std::set<int>> side(2);
        for (int k = 0; k < 2; k++) {
            int cur = s.edges[e][k];
            if (T.node(cur) == nullptr) return F(base + "endpoint-unreachable", "candidate edge endpoint not in tree");
            int steps = 0;
            side[k].insert(cur);
            while (cur != root) {
                auto nd = T.node(cur);
                if (nd == nullptr || !nd->has_pred()) return F(base + "pred-chain", "broken root path");
                int pe = bg.index_of(nd->pred(), s);
                if (pe < 0) return F(base + "foreign-edge", "tree edge not in graph");
                if (pe == e) return F(base + "tree-edge-candidate", "candidate edge is a tree edge of its own tree");
                cd.cyc.push_back(pe);
                cur = (s.edges[pe][0] == cur) ? s.edges[pe][1] : s.edges[pe][0];
                side[k].insert(cur);
                if (++steps > s.n) return F(base + "pred-cycle", "root path does not end");
            }
        }
        std::vector<int> common;
        std::set_intersection(side[0].begin(), side[0].end(), side[1].begin(), side[1].end(), std::back_inserter(common));
        if (common.size() != 1 || common[0] != root)
            return F(base + "paths-not-disjoint", "root paths of candidate (root " + std::to_string(root) + ", edge " + std::to_string(e) + ") meet outside the root");
        std::string d = simple_cycle_defect(s, cd.cyc);
        if (!d.empty()) return F(base + "not-simple-cycle", "candidate (root " + std::to_string(root) + ", edge " + std::to_string(e) + "): " + d);
        cd.w = 0;
        for (int x : cd.cyc) cd.w += w[x];
        i128 rec;
        if (!to_exact((double) cc.weight(), rec) || rec != cd.w)
            return F(base + "recorded-weight", "candidate weight " + std::to_string((double) cc.weight()) + " true " + i128_str(cd.w));
        std::sort(cd.cyc.begin(), cd.cyc.end());
        out.push_back(cd);
    }
    return Verdict::pass();
}

static Verdict sufficient(const Case &c, const char *name, const std::vector<Cand> &cands, const RefMCB &ref) {
    std::string base = std::string("C14/") + name + "/exact-" + c.wtype + "/";
    int dim = cycle_dim(c.g);
    std::vector<const Cand *> order;
    for (auto &x : cands) order.push_back(&x);
    std::stable_sort(order.begin(), order.end(), [](const Cand *a, const Cand *b) { return a->w < b->w; });
    GF2Basis B(c.g.m());
    i128 tot = 0;
    for (auto p : order) {
        if ((int) B.size() == dim) break;
        if (B.add(p->cyc)) tot += p->w;
    }
    if ((int) B.size() != dim) return F(base + "does-not-span", "greedy over the collection reaches dimension " + std::to_string(B.size()) + " of " + std::to_string(dim));
    if (tot != ref.total) return F(base + "not-optimal", "greedy over the collection weighs " + i128_str(tot) + " optimum " + i128_str(ref.total));
    return Verdict::pass();
}

template <class W>
static Verdict check_c14_t(const Case &c) {
    if (!in_exact_domain(c.g)) { stats().note_case(c, false); stats().cls("skipped-outside-exact-domain"); return Verdict::pass(); }
    typedef typename BG<W>::graph_t G;
    typedef typename BG<W>::WeightMap WM;
    Stats &S = stats();
    const GraphSpec &s = c.g;
    int dim = cycle_dim(s);
    BG<W> bg(s);
    std::vector<Cand> horton, fvs, iso;
    Verdict v = collect<W, parmcb::detail::HortonCyclesBuilder<G, WM>>(c, "Horton", bg, horton);
    bool counted = false;
    auto count = [&](bool nt) { if (!counted) { S.note_case(c, nt); counted = true; } };
    if (!v.ok) { count(false); return v; }
    v = collect<W, parmcb::detail::FVSCyclesBuilder<G, WM>>(c, "FVS", bg, fvs);
    if (!v.ok) { count(false); return v; }
    v = collect<W, parmcb::detail::ISOCyclesBuilder<G, WM>>(c, "ISO", bg, iso);
    if (!v.ok) { count(false); return v; }
    count(dim >= 2 && iso.size() < horton.size());
    S.cls(std::string("wtype-") + c.wtype);
    if (iso.size() < horton.size()) S.cls("iso-smaller-than-horton");
    if (fvs.size() < horton.size()) S.cls("fvs-smaller-than-horton");
    if (dim == 0) S.cls("forest");
    std::map<std::pair<int, int>, const Cand *> H;
    for (auto &x : horton) {
        if (!H.insert({{x.root, x.e}, &x}).second)
            return F("C14/Horton/exact-" + c.wtype + "/duplicate", "pair (root,edge) twice");
    }
    for (int k = 0; k < 2; k++) {
        const char *nm = k ? "ISO" : "FVS";
        std::set<std::pair<int, int>> seen;
        for (auto &x : (k ? iso : fvs)) {
            std::string base = std::string("C14/") + nm + "/exact-" + c.wtype + "/";
            auto it = H.find({x.root, x.e});
            if (it == H.end()) return F(base + "not-in-horton", "candidate (root " + std::to_string(x.root) + ", edge " + std::to_string(x.e) + ") is not a Horton candidate");
            if (it->second->cyc != x.cyc) return F(base + "differs-from-horton", "same (root,edge) but different cycle than Horton's");
            if (!seen.insert({x.root, x.e}).second) return F(base + "duplicate", "pair (root,edge) twice");
        }
    }
    RefMCB ref = ref_mcb(s);
    v = sufficient(c, "Horton", horton, ref);
    if (!v.ok) return v;
    v = sufficient(c, "FVS", fvs, ref);
    if (!v.ok) return v;
    v = sufficient(c, "ISO", iso, ref);
    return v;
}
static Verdict check_c14(const Case &c) { return c.wtype == "int" ? check_c14_t<int>(c) : check_c14_t<double>(c); }

int main(int argc, char **argv) {
    if (getenv("VERIF_MAXN")) g_maxN = atoi(getenv("VERIF_MAXN"));
    if (getenv("VERIF_MAXM")) g_maxM = atoi(getenv("VERIF_MAXM"));
    std::map<std::string, Prop> props;
    props["C12"] = Prop{gen_c12, check_c12};
    props["C13"] = Prop{gen_c13, check_c13};
    props["C14"] = Prop{gen_c14, check_c14};
    props["C16"] = Prop{gen_c16, check_c16};
    return run_main(argc, argv, props);
}

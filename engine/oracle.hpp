// Independent oracles. Works on GraphSpec only (edge = index into spec), exact arithmetic in __int128.
#pragma once
#include "spec.hpp"
#include <functional>
#include <numeric>
#include <queue>

namespace vf {

// exact value of a double as integer multiple of 2^-62 (all doubles >= 2^-10 qualify; dyadic smaller ones too)
inline bool to_exact(double x, i128 &out) {
    if (!std::isfinite(x)) return false;
    double s = std::ldexp(x, 62);
    if (std::fabs(s) >= std::ldexp(1.0, 120)) return false;
    if (s != std::floor(s)) return false;
    // convert large double to i128 exactly
    bool neg = s < 0;
    double a = std::fabs(s);
    double hi = std::floor(std::ldexp(a, -60));
    double lo = a - std::ldexp(hi, 60);
    i128 v = ((i128) (int64_t) hi << 60) + (i128) (int64_t) lo;
    out = neg ? -v : v;
    return true;
}
inline i128 exact_or_die(double x) {
    i128 v;
    if (!to_exact(x, v)) { fprintf(stderr, "oracle: weight %a not representable\n", x); abort(); }
    return v;
}
inline std::string i128_str(i128 v) {
    // print as value / 2^62 approx plus exact hex
    double d = (double) v / std::ldexp(1.0, 62);
    char b[64];
    snprintf(b, sizeof b, "%.17g", d);
    return b;
}

struct UnionFind {
    std::vector<int> p;
    explicit UnionFind(int n) : p(n) { std::iota(p.begin(), p.end(), 0); }
    int find(int x) { while (p[x] != x) { p[x] = p[p[x]]; x = p[x]; } return x; }
    bool unite(int a, int b) { a = find(a); b = find(b); if (a == b) return false; p[a] = b; return true; }
};

inline int num_components(const GraphSpec &g) {
    UnionFind uf(g.n);
    int c = g.n;
    for (auto &e : g.edges) if (uf.unite(e[0], e[1])) c--;
    return c;
}
inline int cycle_dim(const GraphSpec &g) { return g.m() - g.n + num_components(g); }

inline bool spec_is_simple(const GraphSpec &g) {
    std::set<std::pair<int, int>> s;
    for (auto &e : g.edges) {
        if (e[0] == e[1]) return false;
        if (e[0] < 0 || e[1] < 0 || e[0] >= g.n || e[1] >= g.n) return false;
        auto p = std::minmax(e[0], e[1]);
        if (!s.insert(p).second) return false;
    }
    return true;
}

inline std::vector<i128> exact_weights(const GraphSpec &g) {
    std::vector<i128> w(g.m());
    for (int i = 0; i < g.m(); i++) w[i] = exact_or_die(g.w[i]);
    return w;
}

// cycle given as list of edge indices. Returns "" if it is one simple cycle, else reason.
inline std::string simple_cycle_defect(const GraphSpec &g, const std::vector<int> &cyc) {
    if (cyc.empty()) return "empty";
    std::set<int> seen;
    std::map<int, int> deg;
    for (int e : cyc) {
        if (e < 0 || e >= g.m()) return "edge-not-in-graph";
        if (!seen.insert(e).second) return "repeated-edge";
        deg[g.edges[e][0]]++;
        deg[g.edges[e][1]]++;
    }
    for (auto &p : deg) if (p.second != 2) return "degree-not-2";
    // connected?
    std::map<int, int> id;
    for (auto &p : deg) { int k = (int) id.size(); id[p.first] = k; }
    UnionFind uf((int) id.size());
    int comps = (int) id.size();
    for (int e : cyc) if (uf.unite(id[g.edges[e][0]], id[g.edges[e][1]])) comps--;
    if (comps != 1) return "not-connected";
    return "";
}

// GF(2) rank of a family of edge sets over m coordinates
inline int gf2_rank(int m, const std::vector<std::vector<int>> &sets) {
    int W = (m + 63) / 64;
    std::vector<std::vector<uint64_t>> rows;
    for (auto &s : sets) {
        std::vector<uint64_t> r(W, 0);
        for (int e : s) if (e >= 0 && e < m) r[e / 64] ^= (1ULL << (e % 64));
        rows.push_back(r);
    }
    int rank = 0;
    std::vector<bool> used(rows.size(), false);
    for (int c = 0; c < m; c++) {
        int piv = -1;
        for (size_t i = 0; i < rows.size(); i++) if (!used[i] && (rows[i][c / 64] >> (c % 64) & 1)) { piv = (int) i; break; }
        if (piv < 0) continue;
        used[piv] = true;
        rank++;
        for (size_t i = 0; i < rows.size(); i++) if ((int) i != piv && (rows[i][c / 64] >> (c % 64) & 1)) {
            for (int k = 0; k < W; k++) rows[i][k] ^= rows[piv][k];
        }
    }
    return rank;
}

// incremental GF(2) independence test
struct GF2Basis {
    int m, W;
    std::vector<std::vector<uint64_t>> rows;  // reduced, each with a pivot
    std::vector<int> pivot;
    explicit GF2Basis(int m) : m(m), W((m + 63) / 64) {}
    bool add(const std::vector<int> &s) {
        std::vector<uint64_t> r(W, 0);
        for (int e : s) r[e / 64] ^= (1ULL << (e % 64));
        for (size_t i = 0; i < rows.size(); i++) if (r[pivot[i] / 64] >> (pivot[i] % 64) & 1) for (int k = 0; k < W; k++) r[k] ^= rows[i][k];
        for (int c = 0; c < m; c++) if (r[c / 64] >> (c % 64) & 1) { rows.push_back(r); pivot.push_back(c); return true; }
        return false;
    }
    size_t size() const { return rows.size(); }
};

struct RefMCB {
    bool available = false;
    i128 total = 0;
    std::vector<i128> sorted_weights;
    long n_simple_cycles = 0;     // only for brute force
    bool has_equal_weight_cycles = false;  // two distinct simple cycles of equal weight (brute force only)
};

// ---- Reference A: brute force over all simple cycles (small graphs)
inline bool brute_feasible(const GraphSpec &g) { return g.n <= 8 && g.m() <= 22; }

inline RefMCB ref_bruteforce(const GraphSpec &g) {
    RefMCB r;
    int n = g.n, m = g.m();
    auto w = exact_weights(g);
    std::vector<std::vector<std::pair<int, int>>> adj(n);
    for (int i = 0; i < m; i++) {
        adj[g.edges[i][0]].push_back({g.edges[i][1], i});
        adj[g.edges[i][1]].push_back({g.edges[i][0], i});
    }
    std::vector<std::pair<i128, std::vector<int>>> cycles;
    // enumerate simple cycles whose smallest vertex is s; each found twice (both directions) -> keep when second vertex < last vertex
    for (int s = 0; s < n; s++) {
        std::vector<int> pathV{s}, pathE;
        std::vector<bool> on(n, false);
        on[s] = true;
        std::function<void(int)> dfs = [&](int u) {
            for (auto &pr : adj[u]) {
                int v = pr.first, e = pr.second;
                if (v < s) continue;
                if (v == s) {
                    if (pathE.size() >= 2 && pathE[0] != e && pathV[1] < u) {
                        std::vector<int> c = pathE;
                        c.push_back(e);
                        i128 tw = 0;
                        for (int x : c) tw += w[x];
                        cycles.push_back({tw, c});
                    }
                    continue;
                }
                if (on[v]) continue;
                on[v] = true;
                pathV.push_back(v);
                pathE.push_back(e);
                dfs(v);
                pathE.pop_back();
                pathV.pop_back();
                on[v] = false;
            }
        };
        dfs(s);
    }
    r.n_simple_cycles = (long) cycles.size();
    std::stable_sort(cycles.begin(), cycles.end(), [](const auto &a, const auto &b) { return a.first < b.first; });
    for (size_t i = 1; i < cycles.size(); i++) if (cycles[i].first == cycles[i - 1].first) { r.has_equal_weight_cycles = true; break; }
    int dim = cycle_dim(g);
    GF2Basis B(m);
    for (auto &c : cycles) {
        if ((int) B.size() == dim) break;
        if (B.add(c.second)) { r.total += c.first; r.sorted_weights.push_back(c.first); }
    }
    if ((int) B.size() != dim) { fprintf(stderr, "oracle A: simple cycles do not span (%zu vs %d)\n", B.size(), dim); abort(); }
    r.available = true;
    return r;
}

// ---- Reference B: textbook de Pina with plain Dijkstra in the explicit signed graph
inline RefMCB ref_depina(const GraphSpec &g) {
    RefMCB r;
    int n = g.n, m = g.m();
    auto w = exact_weights(g);
    // spanning forest by union-find in edge order; non-forest edges numbered 0..N-1
    UnionFind uf(n);
    std::vector<int> nonforest;
    std::vector<int> coord(m, -1);
    for (int i = 0; i < m; i++) if (!uf.unite(g.edges[i][0], g.edges[i][1])) { coord[i] = (int) nonforest.size(); nonforest.push_back(i); }
    int N = (int) nonforest.size();
    std::vector<std::vector<char>> S(N, std::vector<char>(N, 0));  // witnesses over non-forest coordinates
    for (int i = 0; i < N; i++) S[i][i] = 1;
    std::vector<std::vector<std::pair<int, int>>> adj(n);
    for (int i = 0; i < m; i++) {
        adj[g.edges[i][0]].push_back({g.edges[i][1], i});
        adj[g.edges[i][1]].push_back({g.edges[i][0], i});
    }
    const i128 INF = (i128) 1 << 125;
    for (int k = 0; k < N; k++) {
        // signed edges = those e with coord[e]>=0 and S[k][coord[e]]
        std::vector<char> sgn(m, 0);
        for (int e = 0; e < m; e++) if (coord[e] >= 0 && S[k][coord[e]]) sgn[e] = 1;
        i128 best = INF;
        std::vector<int> bestpath;
        for (int s = 0; s < n; s++) {
            // dijkstra from (s,0) to (s,1) in 2n-vertex graph
            std::vector<i128> d(2 * n, INF);
            std::vector<int> pe(2 * n, -1), pv(2 * n, -1);
            typedef std::pair<i128, int> QE;
            std::priority_queue<QE, std::vector<QE>, std::greater<QE>> pq;
            d[s] = 0;
            pq.push({0, s});
            while (!pq.empty()) {
                auto t = pq.top();
                pq.pop();
                int x = t.second;
                if (t.first != d[x]) continue;
                if (x == s + n) break;
                int u = x % n, side = x / n;
                for (auto &pr : adj[u]) {
                    int v = pr.first, e = pr.second;
                    int y = v + n * (side ^ sgn[e]);
                    i128 nd = d[x] + w[e];
                    if (nd < d[y]) { d[y] = nd; pe[y] = e; pv[y] = x; pq.push({nd, y}); }
                }
            }
            if (d[s + n] < best) {
                best = d[s + n];
                bestpath.clear();
                for (int x = s + n; x != s; x = pv[x]) bestpath.push_back(pe[x]);
            }
        }
        if (best >= INF) { fprintf(stderr, "oracle B: no odd cycle in phase %d\n", k); abort(); }
        // cycle vector = edges with odd multiplicity in path (a shortest odd closed walk; its odd-multiplicity part
        // is a cycle-space element of weight <= walk weight; minimality makes it a simple cycle of equal weight in positive graphs)
        std::map<int, int> mult;
        for (int e : bestpath) mult[e]++;
        std::vector<char> C(N, 0);
        i128 cw = 0;
        for (auto &p : mult) if (p.second & 1) { cw += w[p.first]; if (coord[p.first] >= 0) C[coord[p.first]] = 1; }
        if (cw != best) { fprintf(stderr, "oracle B: minimum odd closed walk is not simple\n"); abort(); }
        r.total += cw;
        r.sorted_weights.push_back(cw);
        for (int l = k + 1; l < N; l++) {
            int dot = 0;
            for (int j = 0; j < N; j++) dot ^= (S[l][j] & C[j]);
            if (dot) for (int j = 0; j < N; j++) S[l][j] ^= S[k][j];
        }
    }
    std::sort(r.sorted_weights.begin(), r.sorted_weights.end());
    r.available = true;
    return r;
}

inline RefMCB ref_mcb(const GraphSpec &g) {
    if (brute_feasible(g)) return ref_bruteforce(g);
    return ref_depina(g);
}

// ---- all-pairs shortest paths (exact) + number of shortest paths (capped)
struct APSP {
    int n;
    std::vector<std::vector<i128>> d;
    std::vector<std::vector<long>> cnt;  // number of shortest paths, capped at 1e9
    static i128 inf() { return (i128) 1 << 125; }
};
inline APSP apsp(const GraphSpec &g) {
    APSP a;
    int n = a.n = g.n;
    auto w = exact_weights(g);
    a.d.assign(n, std::vector<i128>(n, APSP::inf()));
    a.cnt.assign(n, std::vector<long>(n, 0));
    std::vector<std::vector<std::pair<int, int>>> adj(n);
    for (int i = 0; i < g.m(); i++) {
        adj[g.edges[i][0]].push_back({g.edges[i][1], i});
        adj[g.edges[i][1]].push_back({g.edges[i][0], i});
    }
    for (int s = 0; s < n; s++) {
        auto &d = a.d[s];
        auto &c = a.cnt[s];
        typedef std::pair<i128, int> QE;
        std::priority_queue<QE, std::vector<QE>, std::greater<QE>> pq;
        d[s] = 0;
        c[s] = 1;
        pq.push({0, s});
        std::vector<bool> done(n, false);
        while (!pq.empty()) {
            auto t = pq.top();
            pq.pop();
            int u = t.second;
            if (done[u]) continue;
            done[u] = true;
            for (auto &pr : adj[u]) {
                int v = pr.first;
                i128 nd = d[u] + w[pr.second];
                if (nd < d[v]) { d[v] = nd; c[v] = c[u]; pq.push({nd, v}); }
                else if (nd == d[v] && !done[v]) { c[v] = std::min(1000000000L, c[v] + c[u]); }
            }
        }
    }
    return a;
}

} // namespace vf

"""C19: headers self-contained and usable from several translation units.

Programs = sets of translation units; a TU = ordered list of parmcb headers placed before anything else (+ optional
instantiation snippets).  Oracles: the compiler (each TU compiles) and the linker (TUs link together).
Singleton TUs and all pairs of single-header TUs are enumerated exhaustively; multi-header TUs (subset x order) are
generated with Hypothesis from VERIF_SEED.
"""
import glob, hashlib, itertools, json, os, re, shutil, subprocess, sys, time
from concurrent.futures import ThreadPoolExecutor

MPI_INC = ["-isystem", "/usr/lib/x86_64-linux-gnu/openmpi/include", "-isystem", "/usr/lib/x86_64-linux-gnu/openmpi/include/openmpi"]
LINK_LIBS = ["-ltbb", "-lboost_timer", "-Wl,-rpath,/usr/lib/x86_64-linux-gnu/openmpi/lib", "-lboost_mpi", "-lboost_serialization",
             "-L/usr/lib/x86_64-linux-gnu/openmpi/lib", "-lmpi_cxx", "-lmpi", "-lpthread"]

PRE_INT_NOTE = "// instantiation snippets with int edge weights\n#define VERIF_SNIPPET_INT_WEIGHTS 1\n"
PRE = r'''
#include <list>
#include <vector>
#include <iterator>
#include <set>
#include <cstdio>
#include <boost/graph/adjacency_list.hpp>
#include <boost/iterator/function_output_iterator.hpp>
namespace {
#ifdef VERIF_SNIPPET_INT_WEIGHTS
typedef boost::adjacency_list<boost::vecS, boost::vecS, boost::undirectedS, boost::no_property, boost::property<boost::edge_weight_t, int> > vg_t;
#else
typedef boost::adjacency_list<boost::vecS, boost::vecS, boost::undirectedS, boost::no_property, boost::property<boost::edge_weight_t, double> > vg_t;
#endif
typedef boost::graph_traits<vg_t>::edge_descriptor ve_t;
typedef boost::property_map<vg_t, boost::edge_weight_t>::type vw_t;
inline vg_t vmk() { vg_t g(3); auto w = boost::get(boost::edge_weight, g); w[boost::add_edge(0, 1, g).first] = 1; w[boost::add_edge(1, 2, g).first] = 2; w[boost::add_edge(2, 0, g).first] = 3; return g; }
}
'''

# instantiation snippets: header -> body of a function (uses vg_t helpers); "@" is replaced by a unique suffix
SNIP = {
    "parmcb/parmcb.hpp": r'''
    vg_t g = vmk(); std::list<std::list<ve_t> > c; double t = 0;
    t += parmcb::mcb_sva_signed(g, boost::get(boost::edge_weight, g), std::back_inserter(c));
    t += parmcb::mcb_sva_fvs_trees(g, boost::get(boost::edge_weight, g), std::back_inserter(c));
    t += parmcb::mcb_sva_iso_trees(g, boost::get(boost::edge_weight, g), std::back_inserter(c));
    t += parmcb::mcb_sva_signed_tbb(g, boost::get(boost::edge_weight, g), std::back_inserter(c));
    t += parmcb::mcb_sva_fvs_trees_tbb(g, boost::get(boost::edge_weight, g), std::back_inserter(c));
    t += parmcb::mcb_sva_iso_trees_tbb(g, boost::get(boost::edge_weight, g), std::back_inserter(c));
    t += parmcb::approx_mcb_sva_signed(g, boost::get(boost::edge_weight, g), 2, std::back_inserter(c));
    t += parmcb::approx_mcb_sva_fvs_trees(g, boost::get(boost::edge_weight, g), 2, std::back_inserter(c));
    t += parmcb::approx_mcb_sva_iso_trees(g, boost::get(boost::edge_weight, g), 2, std::back_inserter(c));
    t += parmcb::approx_mcb_sva_signed_tbb(g, boost::get(boost::edge_weight, g), 2, std::back_inserter(c));
    t += parmcb::approx_mcb_sva_fvs_trees_tbb(g, boost::get(boost::edge_weight, g), 2, std::back_inserter(c));
    t += parmcb::approx_mcb_sva_iso_trees_tbb(g, boost::get(boost::edge_weight, g), 2, std::back_inserter(c));
    parmcb::set_global_tbb_concurrency(2);
    return t;''',
    "parmcb/mpi/parmcb.hpp": r'''
    vg_t g = vmk(); std::list<std::list<ve_t> > c; double t = 0; boost::mpi::communicator world;
    t += parmcb::mcb_sva_signed_mpi(g, boost::get(boost::edge_weight, g), std::back_inserter(c), world);
    t += parmcb::mcb_sva_fvs_trees_mpi(g, boost::get(boost::edge_weight, g), std::back_inserter(c), world);
    t += parmcb::mcb_sva_fvs_trees_tbb_mpi(g, boost::get(boost::edge_weight, g), std::back_inserter(c), world);
    t += parmcb::mcb_sva_iso_trees_mpi(g, boost::get(boost::edge_weight, g), std::back_inserter(c), world);
    t += parmcb::mcb_sva_iso_trees_tbb_mpi(g, boost::get(boost::edge_weight, g), std::back_inserter(c), world);
    return t;''',
    "parmcb/mpi/parmcb_sva_signed.hpp": r'''
    vg_t g = vmk(); std::list<std::list<ve_t> > c; boost::mpi::communicator world;
    return parmcb::mcb_sva_signed_mpi(g, boost::get(boost::edge_weight, g), std::back_inserter(c), world);''',
    "parmcb/mpi/parmcb_sva_trees.hpp": r'''
    vg_t g = vmk(); std::list<std::list<ve_t> > c; boost::mpi::communicator world;
    return parmcb::mcb_sva_iso_trees_mpi(g, boost::get(boost::edge_weight, g), std::back_inserter(c), world);''',
    "parmcb/mpi/sptrees.hpp": r'''
    parmcb::SerializableMinOddCycle<vg_t, vw_t> a, b; parmcb::SerializableMinOddCycleMinOp<vg_t, vw_t> op;
    return op(a, b).exists ? 1.0 : 0.0;''',
    "parmcb/util.hpp": r'''
    vg_t g = vmk(); double t = 0;
    t += parmcb::has_loops(g); t += parmcb::has_multiple_edges(g); t += parmcb::has_non_positive_weights(g, boost::get(boost::edge_weight, g));
    FILE *fp = fopen("/dev/null", "r"); if (fp) { parmcb::read_dimacs_from_file(fp, g); fclose(fp); }
    std::list<ve_t> cyc; t += parmcb::is_cycle(g, cyc);
    parmcb::set_global_tbb_concurrency(2);
    return t;''',
    "parmcb/fp.hpp": r'''
    long a = 3, p = 7, x, y; long g = parmcb::fp<long>::ext_gcd(a, p, x, y); a = 3; p = 7;
    return (double) (g + parmcb::fp<long>::get_mult_inverse(a, p) + parmcb::primes<long>::is_prime(7));''',
    "parmcb/spvecfp.hpp": r'''
    parmcb::SpVecFP<long> v(7), u(7); v = (std::size_t) 3; u = (std::size_t) 3; v += u; v *= 3; return (double) (v * u) + (double) (v + u).size();''',
    "parmcb/spvecgf2.hpp": r'''
    parmcb::SpVecGF2<std::size_t> v(1), u(2); v += u; std::set<std::size_t> s; s.insert(1); return (double) (v * u + v * s) + (double) (v + u).size();''',
    "parmcb/arithmetic.hpp": r'''
    parmcb::ptype a = 5, b = 7; return (double) parmcb::compare(a, b);''',
    "parmcb/forestindex.hpp": r'''
    vg_t g = vmk(); parmcb::ForestIndex<vg_t> fi(g); return (double) fi.cycle_space_dimension() + (double) fi(fi((std::size_t) 0));''',
    "parmcb/sptrees.hpp": r'''
    vg_t g = vmk(); vw_t w = boost::get(boost::edge_weight, g); auto im = boost::get(boost::vertex_index, g);
    parmcb::SPTree<vg_t, vw_t> t(0, g, im, w, 0); return (double) t.create_candidate_cycles().size();''',
    "parmcb/detail/cycles.hpp": r'''
    vg_t g = vmk(); vw_t w = boost::get(boost::edge_weight, g);
    std::vector<parmcb::SPTree<vg_t, vw_t> > trees; std::vector<parmcb::CandidateCycle<vg_t, vw_t> > cycles;
    parmcb::detail::ISOCyclesBuilder<vg_t, vw_t> b; b(g, w, trees, cycles);
    parmcb::detail::HortonCyclesBuilder<vg_t, vw_t> h; h(g, w, trees, cycles);
    parmcb::detail::FVSCyclesBuilder<vg_t, vw_t> f; f(g, w, trees, cycles);
    return (double) cycles.size();''',
    "parmcb/detail/fvs.hpp": r'''
    vg_t g = vmk(); std::vector<boost::graph_traits<vg_t>::vertex_descriptor> out; parmcb::greedy_fvs(g, std::back_inserter(out)); return (double) out.size();''',
    "parmcb/detail/bfs.hpp": r'''
    vg_t g = vmk(); return parmcb::is_bfs_reachable(g, 0, 2, 3) ? 1.0 : 0.0;''',
    "parmcb/detail/spanning_forest.hpp": r'''
    vg_t g = vmk(); std::vector<ve_t> out; return (double) parmcb::detail::spanning_forest(g, std::back_inserter(out));''',
    "parmcb/detail/signed_dijkstra.hpp": r'''
    vg_t g = vmk(); vw_t w = boost::get(boost::edge_weight, g); std::set<ve_t> s, h; s.insert(*boost::edges(g).first);
    auto r = parmcb::bidirectional_signed_dijkstra(g, w, s, h, false, 0, true, 0, false, false, 0.0);
    return std::get<1>(r);''',
    "parmcb/detail/util.hpp": r'''
    parmcb::detail::closed_plus<double> p; return p(1.0, 2.0);''',
    "parmcb/parmcb_sva_signed.hpp": r'''
    vg_t g = vmk(); std::list<std::list<ve_t> > c; return parmcb::mcb_sva_signed(g, boost::get(boost::edge_weight, g), std::back_inserter(c));''',
    "parmcb/parmcb_sva_signed_tbb.hpp": r'''
    vg_t g = vmk(); std::list<std::list<ve_t> > c; return parmcb::mcb_sva_signed_tbb(g, boost::get(boost::edge_weight, g), std::back_inserter(c));''',
    "parmcb/parmcb_sva_trees.hpp": r'''
    vg_t g = vmk(); std::list<std::list<ve_t> > c; return parmcb::mcb_sva_fvs_trees(g, boost::get(boost::edge_weight, g), std::back_inserter(c)) + parmcb::mcb_sva_iso_trees_tbb(g, boost::get(boost::edge_weight, g), std::back_inserter(c));''',
    "parmcb/parmcb_approx_sva_signed.hpp": r'''
    vg_t g = vmk(); std::list<std::list<ve_t> > c;
    std::vector<std::list<ve_t> > cv; double tv = 0; std::size_t cnt = 0; auto sink = [&cnt](const std::list<ve_t> &) { cnt++; };
    tv += parmcb::approx_mcb_sva_signed(g, boost::get(boost::edge_weight, g), 2, std::back_inserter(cv));
    tv += parmcb::approx_mcb_sva_signed(g, boost::get(boost::edge_weight, g), 2, boost::make_function_output_iterator(sink));
    (void) tv; return parmcb::approx_mcb_sva_signed(g, boost::get(boost::edge_weight, g), 2, std::back_inserter(c));''',
    "parmcb/parmcb_approx_sva_signed_tbb.hpp": r'''
    vg_t g = vmk(); std::list<std::list<ve_t> > c;
    std::vector<std::list<ve_t> > cv; double tv = 0; std::size_t cnt = 0; auto sink = [&cnt](const std::list<ve_t> &) { cnt++; };
    tv += parmcb::approx_mcb_sva_signed_tbb(g, boost::get(boost::edge_weight, g), 2, std::back_inserter(cv));
    tv += parmcb::approx_mcb_sva_signed_tbb(g, boost::get(boost::edge_weight, g), 2, boost::make_function_output_iterator(sink));
    (void) tv; return parmcb::approx_mcb_sva_signed_tbb(g, boost::get(boost::edge_weight, g), 2, std::back_inserter(c));''',
    "parmcb/parmcb_approx_sva_trees.hpp": r'''
    vg_t g = vmk(); std::list<std::list<ve_t> > c;
    std::vector<std::list<ve_t> > cv; double tv = 0; std::size_t cnt = 0; auto sink = [&cnt](const std::list<ve_t> &) { cnt++; };
    tv += parmcb::approx_mcb_sva_fvs_trees(g, boost::get(boost::edge_weight, g), 2, std::back_inserter(cv));
    tv += parmcb::approx_mcb_sva_fvs_trees(g, boost::get(boost::edge_weight, g), 2, boost::make_function_output_iterator(sink));
    tv += parmcb::approx_mcb_sva_iso_trees(g, boost::get(boost::edge_weight, g), 2, std::back_inserter(cv));
    tv += parmcb::approx_mcb_sva_iso_trees(g, boost::get(boost::edge_weight, g), 2, boost::make_function_output_iterator(sink));
    (void) tv; return parmcb::approx_mcb_sva_fvs_trees(g, boost::get(boost::edge_weight, g), 2, std::back_inserter(c)) + parmcb::approx_mcb_sva_iso_trees(g, boost::get(boost::edge_weight, g), 2, std::back_inserter(c));''',
    "parmcb/parmcb_approx_sva_trees_tbb.hpp": r'''
    vg_t g = vmk(); std::list<std::list<ve_t> > c;
    std::vector<std::list<ve_t> > cv; double tv = 0; std::size_t cnt = 0; auto sink = [&cnt](const std::list<ve_t> &) { cnt++; };
    tv += parmcb::approx_mcb_sva_fvs_trees_tbb(g, boost::get(boost::edge_weight, g), 2, std::back_inserter(cv));
    tv += parmcb::approx_mcb_sva_fvs_trees_tbb(g, boost::get(boost::edge_weight, g), 2, boost::make_function_output_iterator(sink));
    tv += parmcb::approx_mcb_sva_iso_trees_tbb(g, boost::get(boost::edge_weight, g), 2, std::back_inserter(cv));
    tv += parmcb::approx_mcb_sva_iso_trees_tbb(g, boost::get(boost::edge_weight, g), 2, boost::make_function_output_iterator(sink));
    (void) tv; return parmcb::approx_mcb_sva_fvs_trees_tbb(g, boost::get(boost::edge_weight, g), 2, std::back_inserter(c)) + parmcb::approx_mcb_sva_iso_trees_tbb(g, boost::get(boost::edge_weight, g), 2, std::back_inserter(c));''',
}
# headers whose snippet only makes sense when TBB is configured
NEEDS_TBB_HEADER = {"parmcb/parmcb_sva_signed_tbb.hpp", "parmcb/parmcb_approx_sva_signed_tbb.hpp", "parmcb/parmcb_approx_sva_trees_tbb.hpp",
                    "parmcb/mpi/parmcb.hpp", "parmcb/mpi/parmcb_sva_signed.hpp"}


def public_headers(repo):
    root = os.path.join(repo, "include")
    hs = []
    for dp, dn, fn in os.walk(os.path.join(root, "parmcb")):
        for f in fn:
            if f.endswith(".hpp"):
                hs.append(os.path.relpath(os.path.join(dp, f), root))
    return sorted(hs)


def tu_source(headers, use, uid):
    src = "".join("#include <%s>\n" % h for h in headers)
    if use:
        if use == "int":
            src += PRE_INT_NOTE
        src += PRE
        for i, h in enumerate(headers):
            body = SNIP.get(h)
            if body:
                src += "__attribute__((used)) static double verif_use_%s_%d() {%s\n}\n" % (uid, i, body)
    return src


class Builder:
    def __init__(self, repo, workdir, gen_config):
        self.repo, self.workdir = repo, workdir
        os.makedirs(workdir, exist_ok=True)
        self.inc = {}
        for cfg in ("on", "off", "log"):
            d = os.path.join(workdir, "inc-" + cfg)
            gen_config(d, tbb=(cfg != "off"), mpi=(cfg != "off"), logging=(cfg == "log"))
            self.inc[cfg] = d
        self.cache = {}
        self.compiles = 0
        self.links = 0
        self.main_obj()

    def flags(self, cfg):
        return ["-std=c++14", "-w", "-I", self.inc[cfg], "-I", os.path.join(self.repo, "include")] + MPI_INC

    def compile(self, headers, cfg, use, cxx="g++", syntax_only=False):
        """returns (ok, object path or None, error text)"""
        key = (tuple(headers), cfg, use, cxx, syntax_only)
        if key in self.cache:
            return self.cache[key]
        uid = hashlib.sha1(repr(key).encode()).hexdigest()[:12]
        src = os.path.join(self.workdir, "tu_%s.cpp" % uid)
        with open(src, "w") as f:
            f.write(tu_source(headers, use, uid))
        obj = os.path.join(self.workdir, "tu_%s.o" % uid)
        cmd = [cxx] + self.flags(cfg) + (["-fsyntax-only"] if syntax_only else ["-O0", "-c", "-o", obj]) + [src]
        r = subprocess.run(cmd, stdout=subprocess.PIPE, stderr=subprocess.STDOUT, text=True, errors="replace")
        self.compiles += 1
        res = (r.returncode == 0, None if syntax_only else obj, r.stdout[-3000:])
        self.cache[key] = res
        return res

    def main_obj(self):
        key = "main"
        if key in self.cache:
            return self.cache[key]
        src = os.path.join(self.workdir, "main.cpp")
        open(src, "w").write("int main() { return 0; }\n")
        obj = os.path.join(self.workdir, "main.o")
        subprocess.run(["g++", "-c", "-o", obj, src], check=True)
        self.cache[key] = obj
        return obj

    def link(self, objs):
        out = os.path.join(self.workdir, "prog_%s" % hashlib.sha1(" ".join(objs).encode()).hexdigest()[:12])
        cmd = ["g++", "-o", out, self.main_obj()] + list(objs) + LINK_LIBS
        r = subprocess.run(cmd, stdout=subprocess.PIPE, stderr=subprocess.STDOUT, text=True, errors="replace")
        self.links += 1
        if os.path.exists(out):
            os.remove(out)
        return r.returncode == 0, r.stdout[-3000:]


def first_error(text):
    for line in text.splitlines():
        if "error" in line or "multiple definition" in line or "undefined reference" in line:
            return line.strip()[:300]
    return text.strip().splitlines()[-1][:300] if text.strip() else ""


def program_text(tus):
    """replay format: one 'x tu <cfg> <use|plain> <cxx> h1 h2 ...' line per TU"""
    lines = ["property C19", "entry program", "wtype -", "n 0", "k 1", "ranks 1", "workers 0"]
    for cfg, use, cxx, hs in tus:
        lines.append("x tu %s %s %s %s" % (cfg, ("useint" if use == "int" else "use") if use else "plain", cxx, " ".join(hs)))
    return "\n".join(lines) + "\n"


def parse_program(text):
    tus = []
    for line in text.splitlines():
        if line.startswith("x tu "):
            t = line.split()
            tus.append((t[2], "int" if t[3] == "useint" else (t[3] == "use"), t[4], t[5:]))
    return tus


def check_program(b, tus, link=True):
    """returns None if fine else (key, message)"""
    objs = []
    for cfg, use, cxx, hs in tus:
        syntax_only = not link
        ok, obj, err = b.compile(hs, cfg, use, cxx, syntax_only=syntax_only)
        if not ok:
            return ("C19/%s/%s-%s/does-not-compile" % ("+".join(h.replace("parmcb/", "") for h in hs), cfg, cxx), first_error(err))
        objs.append(obj)
    if link and objs:
        ok, err = b.link(objs)
        if not ok:
            return ("C19/%s/%s/does-not-link" % (" | ".join("+".join(h.replace("parmcb/", "") for h in hs) for _, _, _, hs in tus), tus[0][0]), first_error(err))
    return None

// second translation unit of the C20 harness: calls the library's concurrency knob from here
#include <parmcb/parmcb.hpp>

void verif_set_concurrency_from_other_tu(std::size_t n) {
    parmcb::set_global_tbb_concurrency(n);
}

// C10: DIMACS reader + validators, rapidcheck structure-aware text generator, round trip against a reference parser.
#include "dimacs_check.hpp"
#include "runner.hpp"

using namespace vf;

static std::string gen_sep() { static const char *s[] = {" ", " ", " ", "  ", "\t", " \t"}; return s[pick(0, 5)]; }

static std::string gen_weight_token() {
    int t = pick(0, 99);
    char b[64];
    if (t < 35) snprintf(b, sizeof b, "%d", pick(1, 1000));
    else if (t < 55) snprintf(b, sizeof b, "%d.%d", pick(0, 99), pick(0, 999));
    else if (t < 65) snprintf(b, sizeof b, "0.%d", pick(1, 9));
    else if (t < 72) snprintf(b, sizeof b, "-%d", pick(1, 50));
    else if (t < 78) snprintf(b, sizeof b, "-%d.%d", pick(0, 9), pick(0, 99));
    else if (t < 84) snprintf(b, sizeof b, "0");
    else if (t < 87) snprintf(b, sizeof b, "0.0");
    else if (t < 92) snprintf(b, sizeof b, "%de%d", pick(1, 9), pick(-3, 3));
    else if (t < 96) snprintf(b, sizeof b, "%d", pick(1, 9));
    else snprintf(b, sizeof b, "%d.5", pick(10, 99));
    return b;
}

static std::string gen_comment() {
    std::string l = coin(50) ? "c" : "#";
    int lc = pick(0, 99);
    int len = lc < 6 ? pick(1000, 1021) : lc < 14 ? pick(0, 999) : pick(0, 30);   // up to the longest line the 1024-byte buffer takes whole
    for (int i = 0; i < len; i++) {
        int ch = pick(32, 126);
        l += (char) ch;
    }
    return l;
}

static Case gen_c10() {
    Case c;
    c.entry = "read_dimacs_from_file";
    int nc = pick(0, 99);
    int n = nc < 10 ? pick(0, 2) : nc < 92 ? pick(1, 40) : pick(41, 3000);
    std::string text;
    std::vector<std::string> lines;
    int pre = coin(30) ? pick(1, 3) : 0;
    for (int i = 0; i < pre; i++) lines.push_back(gen_comment());
    static const char *words[] = {"edge", "sp", "col", "max", "x", "graph123"};
    int items = (n == 0) ? 0 : (coin(6) ? pick(31, 400) : pick(0, 30));
    bool wide_seps = coin(5);   // edge lines padded with hundreds of separator characters
    {
        char b[128];
        int declared_m = coin(70) ? items : pick(0, 100);
        snprintf(b, sizeof b, "p%s%s%s%d%s%d", gen_sep().c_str(), words[pick(0, 5)], gen_sep().c_str(), n, gen_sep().c_str(), declared_m);
        lines.push_back(b);
    }
    bool bad_vertex = coin(6);
    int bad_at = bad_vertex ? pick(0, std::max(0, items - 1)) : -1;
    std::vector<std::pair<int, int>> prev;
    for (int i = 0; i < items; i++) {
        if (coin(12)) lines.push_back(gen_comment());
        int u = pick(1, n), v = pick(1, n);
        if (coin(8)) v = u;                                   // self loop
        if (!prev.empty() && coin(10)) { u = prev[pick(0, (int) prev.size() - 1)].first; v = prev[pick(0, (int) prev.size() - 1)].second; if (coin(50)) std::swap(u, v); }
        if (i == bad_at) { if (coin(50)) u = coin(50) ? 0 : n + 1; else v = coin(50) ? 0 : n + pick(1, 3); }
        prev.push_back({u, v});
        std::string l = coin(70) ? "e" : "a";
        auto sepx = [&]() { std::string x = gen_sep(); if (wide_seps && coin(50)) x += std::string((size_t) pick(1, 320), coin(50) ? ' ' : '\t'); return x; };
        l += sepx() + std::to_string(u) + sepx() + std::to_string(v);
        if (!coin(25)) l += sepx() + gen_weight_token();
        if (l.size() > 1022) l = l.substr(0, 1) + " " + std::to_string(u) + " " + std::to_string(v);
        lines.push_back(l);
    }
    if (coin(10)) lines.push_back(gen_comment());
    for (size_t i = 0; i < lines.size(); i++) { text += lines[i]; if (i + 1 < lines.size()) text += "\n"; }
    if (!coin(40)) text += "\n";
    c.extra.push_back("text " + esc(text));
    return c;
}

static Verdict check_c10(const Case &c) {
    Stats &S = stats();
    std::string text = unesc(c.xval("text"));
    DimacsVerdict v = check_dimacs_text(text);
    if (!v.in_domain) { S.cls("out-of-domain(" + v.ref.why + ")"); S.note_case(c, false); return Verdict::pass(); }
    const RefDimacs &r = v.ref;
    S.note_case(c, r.edge_lines >= 1 && (!r.trailing_newline || r.omitted_weight || r.comment_between_edges));
    S.cls(r.trailing_newline ? "trailing-newline" : "no-trailing-newline");
    if (r.omitted_weight) S.cls("omitted-weight");
    if (r.comment_between_edges) S.cls("comment-between-edges");
    if (r.undeclared) S.cls("undeclared-vertex");
    if (r.edge_lines == 0) S.cls("no-edges");
    if (!v.ok) return Verdict::fail(v.key, v.msg);
    return Verdict::pass();
}

static void min_text(Case &c, const std::function<bool(const Case &)> &still) {
    // drop whole lines, then shorten
    int budget = 1500;
    bool progress = true;
    while (progress && budget > 0) {
        progress = false;
        std::string text = unesc(c.xval("text"));
        std::vector<std::string> lines;
        size_t p = 0;
        bool nl = !text.empty() && text.back() == '\n';
        while (p < text.size()) { size_t q = text.find('\n', p); if (q == std::string::npos) q = text.size(); lines.push_back(text.substr(p, q - p)); p = q + 1; }
        for (int i = (int) lines.size() - 1; i >= 0 && budget > 0; i--) {
            std::vector<std::string> l2 = lines;
            l2.erase(l2.begin() + i);
            std::string t;
            for (size_t k = 0; k < l2.size(); k++) { t += l2[k]; if (k + 1 < l2.size() || nl) t += "\n"; }
            Case d = c;
            d.extra.clear();
            d.extra.push_back("text " + esc(t));
            budget--;
            if (still(d)) { c = d; lines = l2; progress = true; }
        }
    }
}

int main(int argc, char **argv) {
    std::map<std::string, Prop> props;
    props["C10"] = Prop{gen_c10, check_c10, false, min_text};
    return run_main(argc, argv, props);
}

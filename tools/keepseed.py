#!/usr/bin/env python3
"""keepseed.py <src-dir> <name> <property> <needs> <caught_by> : store a confirmed seeded change under /verif/seeded/<name>/"""
import json, os, shutil, sys
src, name, prop, needs, caught = sys.argv[1:6]
dst = os.path.join("/verif/seeded", name)
os.makedirs(dst, exist_ok=True)
for f in os.listdir(src):
    if f in ("patch.diff", "demo.cpp", "run_demo.sh", "NOTES.md") or f.endswith((".cpp", ".sh", ".hpp", ".h", ".py")):
        shutil.copy(os.path.join(src, f), os.path.join(dst, f))
meta = dict(property=prop, breaks=prop, needs_to_manifest=needs,
            confirmed="tools/seedtest.sh: patch applies to /repo HEAD in a scratch worktree, 7/7 ctest executables pass with it, demo exits 0 on the clean tree and non-zero on the patched tree",
            checks_run=caught)
json.dump(meta, open(os.path.join(dst, "meta.json"), "w"), indent=1)
print("kept", dst)

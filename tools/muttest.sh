#!/bin/bash
# usage: muttest.sh "<pid> [pid..]" <file-relative-to-repo> <sed-expr> [tier]
# Copies include/ and src/ of /repo to a scratch dir, applies the sed expression, runs the checks against it.
PIDS="$1"; FILE="$2"; EXPR="$3"; TIER="${4:-quick}"
D=$(mktemp -d /tmp/mut.XXXXXX)
cp -r /repo/include /repo/src "$D/"
sed -i "$EXPR" "$D/$FILE"
if diff -q "$D/$FILE" "/repo/$FILE" >/dev/null; then echo "MUTATION DID NOT APPLY"; rm -rf "$D"; exit 3; fi
diff "/repo/$FILE" "$D/$FILE" | head -8
for p in $PIDS; do
  VERIF_REPO="$D" python3-vt /verif/check.py $p --tier $TIER 2>&1 | grep -E "VIOLATION|key=|KNOWN|Error|error" | head -5
  echo "$p rc=${PIPESTATUS[0]}"
done
rm -rf "$D" /verif/replays/_new/*

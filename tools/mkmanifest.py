#!/usr/bin/env python3
"""Regenerates /verif/MANIFEST.json from the table below (kept next to check.py's PROPS)."""
import json, os, sys

VERIF = os.path.dirname(os.path.dirname(os.path.abspath(__file__)))
sys.path.insert(0, VERIF)
import check  # noqa

LEVEL = {
    "C01": ("exploration", "5/C01", "Generated-graph search with a validity oracle (count, simple cycles of the caller's graph, GF(2) rank) under ASan+UBSan; "
            "evidence is N cases held, never absence.", "rapidcheck property-based testing, validity-predicate oracle"),
    "C02": ("exploration", "5/C02", "Generated-graph search compared against two independent reference optima (brute force, textbook de Pina) "
            "in exact arithmetic; many correct bases exist so weight and weight-vector are compared, not cycles.",
            "rapidcheck property-based testing, differential oracle against reference MCB implementations"),
}
NOTE = {
    "C01": "Trusted: union-find/GF(2) oracle code in engine/oracle.hpp; Boost.Graph descriptor identity (property address). Bounded sizes (n<=14 quick, n<=40 thorough).",
    "C02": "Trusted: reference implementations in engine/oracle.hpp (cross-validated against each other on every run). Sizes n<=12 quick, n<=32 thorough.",
}


def main():
    props = [json.loads(l) for l in open(os.path.join(VERIF, "properties.jsonl"))]
    checks = []
    na = []
    for p in props:
        pid = p["id"]
        if pid in check.PROPS and pid in LEVEL:
            cat, ref, text, tech = LEVEL[pid]
            checks.append(dict(
                property_id=pid,
                quick_cmd="python3-vt check.py %s --tier quick" % pid,
                thorough_cmd="python3-vt check.py %s --tier thorough" % pid,
                evidence_file="/verif/evidence/%s.json" % pid,
                replay_cmd_template="python3-vt check.py %s --replay {path}" % pid,
                engine=check.PROPS[pid].get("harness", check.PROPS[pid].get("engine", "")),
                level_claimed=dict(category=cat, text=text, design_ref="DESIGN.md section " + ref),
                level_note=NOTE[pid],
                technique=tech))
        else:
            na.append(dict(property_id=pid, reason=NA.get(pid, "check not built yet in this round (planned, see DESIGN.md section 5)")))
    man = dict(
        version=1,
        setup_cmd="python3-vt check.py --setup",
        hooks=dict(guard="PARMCB_VERIF",
                   enable="checks compile /repo/include and /repo/src with -DPARMCB_VERIF (config.hpp generated from config.hpp.in by check.py)",
                   baseline_off_cmd="bash /verif/tools/baseline_off.sh",
                   source_commits=HOOK_COMMITS, add_only=True),
        engines=ENGINES,
        checks=checks,
        notes="Technique family: property-based testing and fuzzing (rapidcheck, libFuzzer, Hypothesis). See DESIGN.md.",
        not_applicable=na)
    with open(os.path.join(VERIF, "MANIFEST.json"), "w") as f:
        json.dump(man, f, indent=1)
    import jsonschema
    jsonschema.validate(man, json.load(open("/root/.vp/MANIFEST.schema.json")))
    print("MANIFEST.json written: %d checks, %d not_applicable" % (len(checks), len(na)))


NA = {}
HOOK_COMMITS = []
ENGINES = [
    dict(name="check.py", path="/verif/check.py", serves_properties=sorted(LEVEL), kind_free_text="driver: content-hash build cache, shard runner, replay confirmation, evidence writer"),
    dict(name="h_exact", path="/verif/engine/h_exact.cpp", serves_properties=["C01", "C02"], kind_free_text="rapidcheck harness, ASan+UBSan"),
]

if __name__ == "__main__":
    main()

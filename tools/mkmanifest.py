#!/usr/bin/env python3
"""Regenerates /verif/MANIFEST.json from the table below (kept next to check.py's PROPS)."""
import json, os, sys

VERIF = os.path.dirname(os.path.dirname(os.path.abspath(__file__)))
sys.path.insert(0, VERIF)
import check  # noqa

E = "exploration"
LEVEL = {
 "C01": (E, "5/C01", "Generated-graph search with a validity oracle (count, simple cycles of the caller's graph, GF(2) rank) under ASan+UBSan; evidence is N cases held, never absence.", "rapidcheck property-based testing, validity-predicate oracle"),
 "C02": (E, "5/C02", "Generated-graph search compared against two independent reference optima (brute force, textbook de Pina) in exact arithmetic; many correct bases exist, so weight and weight-vector are compared, not cycles.", "rapidcheck property-based testing, differential oracle against reference MCB implementations"),
 "C03": (E, "3.4, 5/C03", "Schedules are owned by the test: a drop-in mock of the used oneTBB subset interprets a generated schedule tape (tape mode, ASan+UBSan, full result contract) or runs every task on its own thread under ThreadSanitizer (thread mode, race clause). Sound for the library's task bodies, blind to TBB-internal races.", "rapidcheck over schedule tapes on a mock scheduler + ThreadSanitizer as race oracle"),
 "C04": (E, "3.5, 5/C04", "Real mpiexec jobs; rank 0 drives rapidcheck and every evaluation runs collectively with a generated communicator size and generated per-rank heap perturbation; hang = watchdog. Layouts are sampled, not enumerated.", "rapidcheck driving MPI jobs, differential oracle, allocator-perturbation fault injection, watchdog"),
 "C05": (E, "5/C05", "Generated graphs and k against a validity oracle that insists on descriptors of the caller's graph after the call returned (ASan build).", "rapidcheck property-based testing, validity-predicate oracle + ASan"),
 "C06": (E, "5/C06", "Exact integer comparison of the emitted weight with (2k-1) x an independent optimum; k=1 exactness; k=0 rejection. Includes a generated tight family (two terminals, parallel routes, one deviating heavy route).", "rapidcheck property-based testing, differential oracle against reference optimum"),
 "C07": (E, "5/C07", "Sanitizers as oracle over all the other generators (ASan+UBSan+LSan per-window leak checks, asserts on), plus foreign-descriptor check. No MSan available.", "generated-input search with sanitizer monitors"),
 "C08": (E, "5/C08", "Metamorphic relations need no reference optimum, so they reach graphs with hundreds of vertices; all six variants/backends must agree and the value must transform as stated.", "rapidcheck metamorphic / differential testing"),
 "C09": (E, "5/C09", "Inexact double weights checked against exact rational arithmetic; the isometric variants' defect is an open known finding restricted to its input class (near-tie), everything else is a violation.", "rapidcheck property-based testing, exact-arithmetic reference oracle"),
 "C10": (E, "5/C10", "Structure-aware text generation (rapidcheck) and coverage-guided fuzzing (libFuzzer, oracle inside the target) against an independent reference parser.", "rapidcheck + libFuzzer, round-trip against reference parser"),
 "C11": (E, "5/C11", "Hypothesis generates files and option sets and runs the real executables (incl. mpiexec); exit status, diagnostics, printed weight vs an independent Python optimum, watchdog for termination.", "Hypothesis over command-line programs, differential oracle, watchdog"),
 "C12": (E, "5/C12", "All n trees of a generated graph against an exact APSP oracle plus cross-tree consistency (reverse and sub-path closure) on tie-heavy inputs.", "rapidcheck property-based testing, reference APSP oracle"),
 "C13": (E, "5/C13", "Generated graphs with pendant decorations; oracle removes the emitted set and tests for a forest.", "rapidcheck property-based testing, validity-predicate oracle"),
 "C14": (E, "5/C14", "Builders called directly; each candidate validated structurally, nesting checked as sets, sufficiency by greedy GF(2) selection against the reference optimum.", "rapidcheck property-based testing, validity + reference oracle"),
 "C15": (E, "5/C15", "Spanner inspected through guarded read-only accessors; stretch certificate per dropped edge by restricted BFS, girth by BFS.", "rapidcheck property-based testing, validity-predicate oracle (hooked accessors)"),
 "C16": (E, "5/C16", "Generated graphs incl. degenerate ones; bijection, inverse lookups, component count, dimension and forest properties against union-find.", "rapidcheck property-based testing, reference union-find oracle"),
 "C17": (E, "5/C17", "Model-based: generated operation histories against a dense vector<bool> model, invariant after every step, whole history shrinks.", "rapidcheck stateful / model-based testing"),
 "C18": (E, "5/C18", "Generated arguments and SpVecFP histories for int, long and cpp_int against cpp_int arithmetic and Miller-Rabin.", "rapidcheck property-based + model-based testing, cpp_int reference"),
 "C19": (E, "5/C19", "Finite program space: singleton TUs and all pairs enumerated exhaustively, multi-header TUs generated with Hypothesis; compiler and linker are the oracles.", "program enumeration/generation (Hypothesis) with compiler+linker oracle"),
 "C20": (E, "5/C20", "Generated call histories on real libtbb observed through global_control::active_value (also from inside the library call) and generated demo option sets observed through a guarded hook line.", "rapidcheck history testing + Hypothesis over demo options"),
}
NOTE = {
 "C01": "Trusted: union-find/GF(2) oracle in engine/oracle.hpp; Boost.Graph descriptor identity (property address). Sizes n<=14 plus a phase with n<=40 (m<=110) in quick; n<=20 plus n<=80 (m<=220) in thorough.",
 "C02": "Trusted: reference implementations in engine/oracle.hpp (cross-validated against each other on every run). Sizes n<=12 plus a phase with n<=36 (m<=100) in quick; n<=16 plus n<=48 (m<=140) in thorough.",
 "C03": "Trusted: engine/mocktbb implements oneTBB's documented semantics and is not more liberal than oneTBB; TSan's happens-before model. Real-libtbb runs are in C07/C08/C20.",
 "C04": "Trusted: OpenMPI/Boost.MPI; glibc malloc behaviour for the layout perturbation (diversity is measured and reported, not assumed). Built with UBSan only.",
 "C05": "Trusted: oracle code; guarded accessors only classify cases. n<=16 quick, n<=40 thorough.",
 "C06": "Trusted: reference optimum. Bound checked for k<=10^6.",
 "C07": "Trusted: ASan/UBSan/LSan. Uninitialised reads invisible (no MSan). MPI code only under UBSan (C04).",
 "C08": "Trusted: transform implementations in the harness (pure functions of graph+recipe); relations are from the property statement.",
 "C09": "Trusted: exact __int128 arithmetic (weights are multiples of 2^-62). One open known finding (known_findings.txt).",
 "C10": "Trusted: reference parser in engine/dimacs_check.hpp; domain = lines of at most 1022 bytes plus newline, no blank lines/CR/NUL.",
 "C11": "Trusted: Python brute-force optimum; 60 s watchdog on millisecond runs (3 confirmations).",
 "C12": "Trusted: exact Dijkstra APSP with path counting in the oracle. n<=14 quick, n<=22 thorough.",
 "C13": "Trusted: union-find forest test.",
 "C14": "Trusted: reference optimum and GF(2) elimination.",
 "C15": "Trusted: BFS oracles; hook accessors are read-only (MANIFEST.hooks).",
 "C16": "Trusted: union-find.",
 "C17": "Trusted: dense model. Moved-from vectors are cleared before reuse.",
 "C18": "Trusted: Boost.Multiprecision cpp_int; built-in types restricted to operands for which the property's equations are representable (stated in evidence.assumptions).",
 "C19": "Trusted: g++/clang++/ld. Instantiation snippets cover documented entry points per header.",
 "C20": "Trusted: tbb::global_control::active_value as observation of 'allowed parallelism'; hook line only in PARMCB_VERIF builds.",
}


def main():
    props = [json.loads(l) for l in open(os.path.join(VERIF, "properties.jsonl"))]
    checks = []
    na = []
    for p in props:
        pid = p["id"]
        if pid in check.PROPS and pid in LEVEL:
            cat, ref, text, tech = LEVEL[pid]
            checks.append(dict(
                property_id=pid,
                quick_cmd="python3-vt check.py %s --tier quick" % pid,
                thorough_cmd="python3-vt check.py %s --tier thorough" % pid,
                evidence_file="/verif/evidence/%s.json" % pid,
                replay_cmd_template="python3-vt check.py %s --replay {path}" % pid,
                engine=check.PROPS[pid].get("harness", check.PROPS[pid].get("engine", "")),
                level_claimed=dict(category=cat, text=text, design_ref="DESIGN.md section " + ref),
                level_note=NOTE[pid],
                technique=tech))
        else:
            na.append(dict(property_id=pid, reason=NA.get(pid, "check not built yet in this round (planned, see DESIGN.md section 5)")))
    man = dict(
        version=1,
        setup_cmd="python3-vt check.py --setup",
        hooks=dict(guard="PARMCB_VERIF",
                   enable="checks compile /repo/include and /repo/src with -DPARMCB_VERIF (config.hpp generated from config.hpp.in by check.py)",
                   baseline_off_cmd="bash /verif/tools/baseline_off.sh",
                   source_commits=HOOK_COMMITS, add_only=True),
        engines=ENGINES,
        checks=checks,
        notes="Technique family: property-based testing and fuzzing (rapidcheck, libFuzzer, Hypothesis). See DESIGN.md.",
        not_applicable=na)
    with open(os.path.join(VERIF, "MANIFEST.json"), "w") as f:
        json.dump(man, f, indent=1)
    import jsonschema
    jsonschema.validate(man, json.load(open("/root/.vp/MANIFEST.schema.json")))
    print("MANIFEST.json written: %d checks, %d not_applicable" % (len(checks), len(na)))


NA = {}
HOOK_COMMITS = ["6ffa7e7", "3792bdd"]
ENGINES = [
    dict(name="check.py", path="/verif/check.py", serves_properties=sorted(LEVEL), kind_free_text="driver: content-hash build cache, shard runner, libFuzzer jobs, replay confirmation (3x), known findings, evidence writer"),
    dict(name="h_exact", path="/verif/engine/h_exact.cpp", serves_properties=["C01", "C02", "C07", "C08", "C09"], kind_free_text="rapidcheck harness, ASan+UBSan, real libtbb"),
    dict(name="h_approx", path="/verif/engine/h_approx.cpp", serves_properties=["C05", "C06", "C07", "C15"], kind_free_text="rapidcheck harness, ASan+UBSan, -DPARMCB_VERIF accessors"),
    dict(name="h_sched", path="/verif/engine/h_sched.cpp", serves_properties=["C03"], kind_free_text="rapidcheck harness on engine/mocktbb: tape mode (ASan+UBSan) and thread mode (TSan)"),
    dict(name="h_mpi", path="/verif/engine/h_mpi.cpp", serves_properties=["C04"], kind_free_text="rapidcheck at rank 0 driving collective evaluations under mpiexec"),
    dict(name="h_comp", path="/verif/engine/h_comp.cpp", serves_properties=["C07", "C12", "C13", "C14", "C16"], kind_free_text="rapidcheck harness, ASan+UBSan"),
    dict(name="h_alg", path="/verif/engine/h_alg.cpp", serves_properties=["C07", "C17", "C18"], kind_free_text="rapidcheck model-based harness, ASan+UBSan"),
    dict(name="h_dimacs+fz_dimacs", path="/verif/engine/h_dimacs.cpp", serves_properties=["C07", "C10"], kind_free_text="rapidcheck text generator + libFuzzer target with the oracle inside"),
    dict(name="h_conc", path="/verif/engine/h_conc.cpp", serves_properties=["C20"], kind_free_text="rapidcheck call-history harness on real libtbb"),
    dict(name="demos.py", path="/verif/engine/demos.py", serves_properties=["C11", "C20"], kind_free_text="Hypothesis strategies -> executables built from /repo/src"),
    dict(name="headers.py", path="/verif/engine/headers.py", serves_properties=["C19"], kind_free_text="program enumeration/generation -> compiler/linker"),
]

if __name__ == "__main__":
    main()

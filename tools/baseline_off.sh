#!/bin/bash
# Runs the repository's own 20-test suite with the PARMCB_VERIF guard OFF (stock CMake build, no extra defines).
set -e
B=/verif/build/baseline-off-$$
rm -rf "$B"; mkdir -p "$B"
trap 'rm -rf "$B"' EXIT
cmake -G Ninja -S /repo -B "$B" > "$B/cmake.log" 2>&1 || { cat "$B/cmake.log"; exit 1; }
cmake --build "$B" -j 16 > "$B/build.log" 2>&1 || { tail -50 "$B/build.log"; exit 1; }
ctest --test-dir "$B" -j8 --timeout 900 --output-on-failure

#!/usr/bin/env python3
"""Fills the @@SEEDTABLE@@ marker / regenerates the table between the SEEDTABLE comments in DESIGN.md from seeded/*/meta.json."""
import glob, json, os, re
V = "/verif"
rows = ["| id | breaks | needs to manifest | checks run and result |", "|----|--------|-------------------|-----------------------|"]
for d in sorted(glob.glob(os.path.join(V, "seeded", "*"))):
    m = json.load(open(os.path.join(d, "meta.json")))
    rows.append("| %s | %s | %s | %s |" % (os.path.basename(d), m["property"], m["needs_to_manifest"].replace("|", "/"), m["checks_run"].replace("|", "/")))
table = "<!-- SEEDTABLE BEGIN -->\n" + "\n".join(rows) + "\n<!-- SEEDTABLE END -->"
p = os.path.join(V, "DESIGN.md")
s = open(p).read()
if "@@SEEDTABLE@@" in s:
    s = s.replace("@@SEEDTABLE@@", table)
else:
    s = re.sub(r"<!-- SEEDTABLE BEGIN -->.*?<!-- SEEDTABLE END -->", lambda _: table, s, flags=re.S)
open(p, "w").write(s)
print(len(rows) - 2, "seeds")

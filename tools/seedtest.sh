#!/bin/bash
# usage: seedtest.sh <seed-dir containing patch.diff + demo> "<pids>" [tier]
# Confirms a seeded change (applies, suite passes, demo fails with / passes without) in a scratch worktree, then runs our checks on it.
SD="$1"; PIDS="$2"; TIER="${3:-quick}"
WT=$(mktemp -d /tmp/sw.XXXXXX); rmdir "$WT"
git -C /repo worktree add -q --detach "$WT" HEAD || exit 3
cleanup() { git -C /repo worktree remove --force "$WT" 2>/dev/null; rm -rf "$WT"; }
trap cleanup EXIT
cmake -G Ninja -S "$WT" -B "$WT/_b" >/dev/null 2>&1 || { echo "SEED cmake failed"; exit 3; }
demo() {  # $1 = label
  if [ -f "$SD/run_demo.sh" ]; then (cd "$SD" && timeout 600 bash run_demo.sh "$WT" >/tmp/seed-demo.log 2>&1); rc=$?
  else
    EXTRA=""; RUN=""
    if grep -q "boost/mpi" "$SD/demo.cpp"; then EXTRA="-isystem /usr/lib/x86_64-linux-gnu/openmpi/include -isystem /usr/lib/x86_64-linux-gnu/openmpi/include/openmpi -lboost_mpi -lboost_serialization -L/usr/lib/x86_64-linux-gnu/openmpi/lib -lmpi_cxx -lmpi"; RUN="mpiexec --allow-run-as-root --oversubscribe -n 3"; fi
    g++ -std=c++14 -O1 -I "$WT/include" -I "$WT/_b/include" "$SD/demo.cpp" -o "$WT/_b/demo_bin" -ltbb -lboost_timer -lpthread $EXTRA >/tmp/seed-demo.log 2>&1 || { echo "SEED demo does not compile ($1)"; tail -5 /tmp/seed-demo.log; return 9; }
    timeout 600 $RUN "$WT/_b/demo_bin" >>/tmp/seed-demo.log 2>&1; rc=$?
  fi
  return $rc
}
demo clean; C=$?
git -C "$WT" apply "$SD/patch.diff" || { echo "SEED patch does not apply"; exit 3; }
demo patched; P=$?
echo "SEED demo: clean rc=$C patched rc=$P"
cmake --build "$WT/_b" -j 8 >/tmp/seed-build.log 2>&1 || { echo "SEED build failed with patch"; tail -5 /tmp/seed-build.log; exit 3; }
if ctest --test-dir "$WT/_b" -j8 >/tmp/seed-ctest.log 2>&1; then echo "SEED suite: passes with patch"; else echo "SEED suite: FAILS with patch"; tail -5 /tmp/seed-ctest.log; fi
for p in $PIDS; do
  S=$(date +%s)
  VERIF_REPO="$WT" python3-vt /verif/check.py $p --tier $TIER 2>&1 | grep -E "VIOLATION|key=|KNOWN|rror" | head -4
  echo "CHECK $p rc=${PIPESTATUS[0]} ($(( $(date +%s) - S ))s)"
done
rm -rf /verif/replays/_new/*

#!/bin/bash
# usage: reverify.sh <seed-id:props> ...   e.g. reverify.sh "C02-B:C02" "C14-H2:C12"
# Re-runs the quick tier(s) against kept seeded changes and prints one line per seed.
for item in "$@"; do
  id="${item%%:*}"; props="${item#*:}"
  out=$(/verif/tools/seedtest.sh /verif/seeded/$id "$props" 2>&1)
  caught=$(echo "$out" | grep -c "^VIOLATION")
  demo=$(echo "$out" | grep "SEED demo" | head -1)
  echo "$id [$props] violations=$caught  $demo  $(echo "$out" | grep -E '^CHECK' | tr '\n' ' ')"
done
